package main

// C13 — event listings follow log order and honour since/until/reverse exactly.
//
// D1 order source of the entry list (provenance of the slice handed to the range selector),
// D2 plumbing that is not evaluated (request fields -> ListEvents, selected range -> iterator,
//    synchronous emission),
// D3 parameter-consistency table per RPC handler (finite-domain evaluation of the check
//    function composed with the call site, compared with DESIGN.md B.2) and its enforcement,
// D4 range selection and iteration order per store (exhaustive finite-domain evaluation of
//    the selector/iterator SSA for logs of 0..12 abstract entries, composed with the call
//    sites in ListEvents),
// D5 invalid-range errors propagate (A3),
// D6 the RPC handlers list previous events exactly when since_now is unset,
// D7 replayed events are not lost between the forwarding goroutine and the send loop,
// D8 no nil event is emitted on a listing channel (sends sit on the nil-error side of the open call).

import (
	"fmt"
	"go/constant"
	"go/token"
	"go/types"
	"sort"
	"strings"

	"golang.org/x/tools/go/ssa"
)

const (
	c13PkgLogIface = "berty.tech/go-ipfs-log/iface"
	c13PkgErrcode  = modulePath + "/pkg/errcode"
	c13MaxLog      = 12 // log sizes 0..12, the quantifier of the property
	c13UnknownID   = 1000
)

func init() {
	register(&PropertyDef{
		ID:    "C13",
		Title: "Event listings follow log order and honour since/until/reverse exactly",
		Explanation: "Decides, from the type-checked SSA of /repo and without executing it: (D1) the entry slice that MetadataStore.ListEvents and MessageStore.ListEvents hand to their range selector is the log's deterministic clock-sorted traversal, oldest first (go-ipfs-log Log.Values() with an even number of reversals); a slice taken from the insertion-ordered entry map (GetEntries), from the heads, or reversed an odd number of times is reported; an order source the rule does not know is undecided, never 'held'. " +
			"(D2) both list RPC handlers pass the request's since_id, until_id and reverse_order to the store's ListEvents in the positions of its since, until and reverse parameters; the slice given to the iterator is the selector's result; the iterator callback emits synchronously (no goroutine per entry). " +
			"(D3) for each handler, the parameter check it calls (a module function all of whose arguments are request fields or constants, passed directly or as the fields of a local struct value such as a method receiver), composed with the request fields given at the call site, is evaluated for all 32 combinations of (since_id set, until_id set, since_now, until_now, reverse_order) and fails exactly where DESIGN.md B.2 requires; its error is enforced before the listing. " +
			"(D4) for each store, the range selector and the iterator are evaluated exhaustively on abstract logs of 0..12 distinct entries (oldest first) for every (since, until) in {unset, each entry, unknown identifier} and both values of reverse, with the arguments composed as ListEvents passes them: the selected entries are exactly the inclusive range, an unknown identifier or since-after-until gives an error carrying ErrInvalidRange, and the iterator (a module function, or the function value a module chooser returns for the reverse flag, evaluated for both values) visits every selected entry once in forward order, or exactly reversed when reverse is set. " +
			"(D5) ListEvents returns the selector's error; the handlers return ListEvents' error. (D6) for every request shape the parameter table accepts, the conditions under which the handler calls ListEvents (request fields, nil tests of them, and module predicates over request fields, evaluated) hold exactly when since_now is unset. " +
			"(D7) in each handler, a channel that hands replayed events from a forwarding goroutine to the loop that calls the stream's Send is a rendez-vous channel (constant capacity 0) whenever the forwarder signals completion out of band, i.e. calls the cancel function of a context whose Done() the send loop selects on next to that channel and answers by returning: with a buffer the cancel can overtake queued events and the stream ends without its last events; completion signalled in band (sentinel, close) carries no such requirement. " +
			"(D8) every send on the channel a ListEvents returns hands over an event that exists: the value sent is either freshly built, or tested non-nil, or the result of the call that opened the entry and the send is reachable only through the nil-error side of that call's error (a compound condition whose other side still contains an error case is reported): the list RPCs read a nil event as the end of the listing, so one nil event silently drops the rest of the range. " +
			"Not decided: that Values() itself is a correct, replica-independent linearisation (go-ipfs-log, trusted at its documented API); that entries which fail to open are skipped without disturbing the order of the others (D8 only excludes that they are emitted as nil events); the interleaving of replayed and live events in the RPC stream (D7 only excludes the loss of queued replayed events at an out-of-band end of stream); behaviour for logs above 12 entries beyond what the size-independent evaluation suggests; concurrent appends during a listing.",
		Trusted:     []string{"golang.org/x/tools go/packages+go/ssa (v0.29.0)", "go-ipfs-log: Log.Values() is the clock-sorted traversal oldest first, GetEntries() the insertion-ordered map, OrderedMap.Reverse/Slice/Copy as documented", "bytes.Equal, cid.Cid.Bytes injective on distinct entries", "slices.IndexFunc/Index/ContainsFunc/Contains: first matching position or -1 (modelled over the abstract entry list, the predicate closure is evaluated per element)", "the rule file's finite-domain SSA evaluator (c13.go)"},
		Assumptions: []string{"dependencies behave as documented; only module code is analysed", "distinct log entries have distinct hashes", "request byte fields are nil when unset (protobuf decoding)"},
		Floors:      map[string]int{"D1": 2, "D2": 10, "D3": 66, "D4": 12, "D5": 4, "D6": 2, "D7": 2, "D8": 2},
		Borrows: []Borrow{
			{From: "C04", Rules: []string{"D9"}, Why: "listings follow log order, and are the same on every replica, only if the log order itself is the same on every replica: group stores must be opened with a comparator whose tie-break is total (every device writes under the group's one log identity, so concurrent entries tie on clock time and id and the default orders them by arrival)"},
			{From: "C14", Rules: []string{"D1"}, Why: "a message listing contains every entry of the range only if each entry can still be opened; an entry whose only message key was consumed when its push payload was opened is skipped silently, and a replica that received the push lists something else than one that did not"},
		},
		Run: runC13,
	})
}

// ---------------------------------------------------------------------------
// type predicates

func c13Named(t types.Type, pkg, name string) bool {
	n, ok := types.Unalias(t).(*types.Named)
	return ok && n.Obj().Name() == name && n.Obj().Pkg() != nil && n.Obj().Pkg().Path() == pkg
}

func c13IsEntry(t types.Type) bool { return c13Named(t, c13PkgLogIface, "IPFSLogEntry") }

func c13IsEntrySlice(t types.Type) bool {
	s, ok := t.Underlying().(*types.Slice)
	return ok && c13IsEntry(s.Elem())
}

func c13IsOrdered(t types.Type) bool { return c13Named(t, c13PkgLogIface, "IPFSLogOrderedEntries") }
func c13IsLog(t types.Type) bool     { return c13Named(t, c13PkgLogIface, "IPFSLog") }

func c13IsBytes(t types.Type) bool {
	s, ok := t.Underlying().(*types.Slice)
	if !ok {
		return false
	}
	b, ok := s.Elem().Underlying().(*types.Basic)
	return ok && b.Kind() == types.Byte
}

// c13IsEntryFunc: a per-entry visitor, func(entry) without results (a function that opens an
// entry and returns the event is not a visitor).
func c13IsEntryFunc(t types.Type) bool {
	sig, ok := t.Underlying().(*types.Signature)
	return ok && sig.Params().Len() >= 1 && sig.Results().Len() == 0 && c13IsEntry(sig.Params().At(0).Type())
}

// ---------------------------------------------------------------------------
// value origins: where does an SSA value come from, looking through closure captures,
// single-assignment spills, field reads, generated getters, conversions and negations.

type c13Origin struct {
	Kind  string // param | const | result | make | unknown
	Fn    *ssa.Function
	Make  *ssa.MakeChan // for make: the channel creation
	Index int           // parameter index in Fn.Params / result index of Call
	Path  string        // field path read from the parameter, e.g. ".SinceId"
	Neg   bool          // an odd number of boolean negations was applied
	Const *ssa.Const
	Call  *ssa.Call
	Why   string
}

func (o c13Origin) String() string {
	neg := ""
	if o.Neg {
		neg = "!"
	}
	switch o.Kind {
	case "param":
		return fmt.Sprintf("%s%s.%s%s", neg, fnName(o.Fn), o.Fn.Params[o.Index].Name(), o.Path)
	case "const":
		return neg + o.Const.String()
	case "result":
		return fmt.Sprintf("%sresult #%d of %s", neg, o.Index, calleeKey(o.Call.Common()))
	case "make":
		return "a channel made in " + fnName(o.Make.Parent())
	}
	return "unknown (" + o.Why + ")"
}

func c13ParamIndex(p *ssa.Parameter) int {
	for i, q := range p.Parent().Params {
		if q == p {
			return i
		}
	}
	return -1
}

// c13Binding returns the value bound to free variable fv where its closure is created.
func c13Binding(fv *ssa.FreeVar) ssa.Value {
	fn := fv.Parent()
	par := fn.Parent()
	if par == nil {
		return nil
	}
	idx := -1
	for i, f := range fn.FreeVars {
		if f == fv {
			idx = i
		}
	}
	var found ssa.Value
	n := 0
	for _, b := range par.Blocks {
		for _, in := range b.Instrs {
			if mc, ok := in.(*ssa.MakeClosure); ok && mc.Fn == ssa.Value(fn) && idx >= 0 && idx < len(mc.Bindings) {
				found = mc.Bindings[idx]
				n++
			}
		}
	}
	if n != 1 {
		return nil
	}
	return found
}

// c13UniqueStore: the only value ever stored into the cell al (directly or through the
// closures that capture it); nil when there are several stores or the address escapes.
func c13UniqueStore(al ssa.Value) ssa.Value {
	var vals []ssa.Value
	ok := true
	var visit func(addr ssa.Value, depth int)
	visit = func(addr ssa.Value, depth int) {
		if addr.Referrers() == nil || depth > 4 {
			ok = false
			return
		}
		for _, r := range *addr.Referrers() {
			switch u := r.(type) {
			case *ssa.Store:
				if u.Addr == addr {
					vals = append(vals, u.Val)
				} else {
					ok = false
				}
			case *ssa.UnOp, *ssa.DebugRef:
			case *ssa.MakeClosure:
				f, isF := u.Fn.(*ssa.Function)
				if !isF {
					ok = false
					continue
				}
				for i, b := range u.Bindings {
					if b == addr && i < len(f.FreeVars) {
						visit(f.FreeVars[i], depth+1)
					}
				}
			default:
				ok = false
			}
		}
	}
	visit(al, 0)
	if !ok || len(vals) != 1 {
		return nil
	}
	return vals[0]
}

// c13StructAlloc: addr is (a captured reference to) a local variable of struct type.
func c13StructAlloc(addr ssa.Value) *ssa.Alloc {
	for i := 0; i < 4; i++ {
		fv, ok := addr.(*ssa.FreeVar)
		if !ok {
			break
		}
		b := c13Binding(fv)
		if b == nil {
			return nil
		}
		addr = b
	}
	al, ok := addr.(*ssa.Alloc)
	if !ok {
		return nil
	}
	if _, isStruct := al.Type().Underlying().(*types.Pointer).Elem().Underlying().(*types.Struct); !isStruct {
		return nil
	}
	return al
}

// c13FieldStore: the only value ever stored into field i of the local struct variable al
// (looking into the closures that capture it). nil when the field is stored several times or
// never, when the variable is overwritten as a whole, or when its address escapes (passed to
// a call, stored): n is the number of stores seen, -1 for an escape.
func c13FieldStore(al *ssa.Alloc, field int) (val ssa.Value, n int) {
	var vals []ssa.Value
	escaped := false
	var visit func(addr ssa.Value, depth int)
	visit = func(addr ssa.Value, depth int) {
		if addr.Referrers() == nil || depth > 4 {
			escaped = true
			return
		}
		for _, r := range *addr.Referrers() {
			switch u := r.(type) {
			case *ssa.FieldAddr:
				if u.X != addr || u.Referrers() == nil {
					escaped = true
					continue
				}
				for _, r2 := range *u.Referrers() {
					switch w := r2.(type) {
					case *ssa.Store:
						if w.Addr != ssa.Value(u) {
							escaped = true // the field's address is stored somewhere
						} else if u.Field == field {
							vals = append(vals, w.Val)
						}
					case *ssa.UnOp, *ssa.DebugRef:
					default:
						if u.Field == field {
							escaped = true
						}
					}
				}
			case *ssa.UnOp, *ssa.DebugRef:
			case *ssa.Store:
				escaped = true // whole-variable store, or the address stored elsewhere
			case *ssa.MakeClosure:
				f, isF := u.Fn.(*ssa.Function)
				if !isF {
					escaped = true
					continue
				}
				for i, b := range u.Bindings {
					if b == addr && i < len(f.FreeVars) {
						visit(f.FreeVars[i], depth+1)
					}
				}
			default:
				escaped = true
			}
		}
	}
	visit(al, 0)
	if escaped {
		return nil, -1
	}
	if len(vals) != 1 {
		return nil, len(vals)
	}
	return vals[0], 1
}

func c13IsGetter(cc *ssa.CallCommon) (string, bool) {
	f := staticCallee(cc)
	if f == nil || f.Signature.Recv() == nil || len(cc.Args) != 1 || !strings.HasPrefix(f.Name(), "Get") || len(f.Name()) < 4 {
		return "", false
	}
	if p := fnPkg(f); p == nil || p.Path() != pkgTypes {
		return "", false
	}
	return strings.TrimPrefix(f.Name(), "Get"), true
}

func c13Resolve(v ssa.Value) c13Origin {
	o := c13Origin{}
	unknown := func(why string) c13Origin {
		o.Kind, o.Why = "unknown", why
		return o
	}
	for step := 0; step < 64; step++ {
		switch x := v.(type) {
		case *ssa.Parameter:
			o.Kind, o.Fn, o.Index = "param", x.Parent(), c13ParamIndex(x)
			return o
		case *ssa.Const:
			o.Kind, o.Const = "const", x
			return o
		case *ssa.ChangeType:
			v = x.X
		case *ssa.ChangeInterface:
			v = x.X
		case *ssa.MakeInterface:
			v = x.X
		case *ssa.Convert:
			v = x.X
		case *ssa.FreeVar:
			b := c13Binding(x)
			if b == nil {
				return unknown("captured variable " + x.Name() + " has no unique binding")
			}
			v = b
		case *ssa.Field:
			st := x.X.Type().Underlying().(*types.Struct)
			if ld, ok := x.X.(*ssa.UnOp); ok && ld.Op == token.MUL {
				if al := c13StructAlloc(ld.X); al != nil {
					fs, n := c13FieldStore(al, x.Field)
					if fs == nil {
						return unknown(fmt.Sprintf("field %s of local %s is assigned %d times or the variable escapes", st.Field(x.Field).Name(), al.Comment, n))
					}
					v = fs
					continue
				}
			}
			o.Path = "." + st.Field(x.Field).Name() + o.Path
			v = x.X
		case *ssa.UnOp:
			switch x.Op {
			case token.NOT:
				o.Neg = !o.Neg
				v = x.X
			case token.MUL:
				addr := x.X
				for {
					if fv, ok := addr.(*ssa.FreeVar); ok {
						b := c13Binding(fv)
						if b == nil {
							return unknown("captured variable " + fv.Name() + " has no unique binding")
						}
						addr = b
						continue
					}
					break
				}
				switch a := addr.(type) {
				case *ssa.Alloc:
					st := c13UniqueStore(a)
					if st == nil {
						return unknown("variable " + a.Comment + " is assigned more than once or escapes")
					}
					v = st
				case *ssa.FieldAddr:
					st := a.X.Type().Underlying().(*types.Pointer).Elem().Underlying().(*types.Struct)
					if al := c13StructAlloc(a.X); al != nil {
						// field of a local struct variable: the one value assigned to that field
						fs, n := c13FieldStore(al, a.Field)
						if fs == nil {
							return unknown(fmt.Sprintf("field %s of local %s is assigned %d times or the variable escapes", st.Field(a.Field).Name(), al.Comment, n))
						}
						v = fs
						continue
					}
					o.Path = "." + st.Field(a.Field).Name() + o.Path
					v = a.X
				default:
					return unknown(fmt.Sprintf("load through %T", addr))
				}
			default:
				return unknown("operator " + x.Op.String())
			}
		case *ssa.MakeChan:
			o.Kind, o.Make = "make", x
			return o
		case *ssa.Extract:
			call, ok := x.Tuple.(*ssa.Call)
			if !ok {
				return unknown(fmt.Sprintf("component of %T", x.Tuple))
			}
			o.Kind, o.Call, o.Index = "result", call, x.Index
			return o
		case *ssa.Call:
			if f, ok := c13IsGetter(x.Common()); ok {
				o.Path = "." + f + o.Path
				v = x.Common().Args[0]
				continue
			}
			o.Kind, o.Call, o.Index = "result", x, 0
			return o
		default:
			return unknown(fmt.Sprintf("%T", v))
		}
	}
	return unknown("resolution too deep")
}

// c13Scope: a root function with its closures and the module helpers it calls (depth-bounded);
// parameters of a helper that has exactly one call site in the scope are followed to the
// argument at that site.
type c13Scope struct {
	root   *ssa.Function
	funcs  []*ssa.Function
	inSet  map[*ssa.Function]bool
	depth  map[*ssa.Function]int
	unique map[*ssa.Function]ssa.CallInstruction // the only call/go/defer of a helper in the scope
}

func c13NewScope(root *ssa.Function, depth int) *c13Scope {
	sc := &c13Scope{root: root, inSet: map[*ssa.Function]bool{}, depth: map[*ssa.Function]int{}, unique: map[*ssa.Function]ssa.CallInstruction{}}
	type item struct {
		fn *ssa.Function
		d  int
	}
	q := []item{{root, 0}}
	sc.inSet[root] = true
	for len(q) > 0 {
		it := q[0]
		q = q[1:]
		sc.funcs = append(sc.funcs, it.fn)
		sc.depth[it.fn] = it.d
		for _, a := range it.fn.AnonFuncs {
			if !sc.inSet[a] {
				sc.inSet[a] = true
				q = append(q, item{a, it.d})
			}
		}
		if it.d >= depth {
			continue
		}
		for _, b := range it.fn.Blocks {
			for _, in := range b.Instrs {
				ci, ok := in.(ssa.CallInstruction)
				if !ok {
					continue
				}
				f := staticCallee(ci.Common())
				if f == nil || f.Blocks == nil || f.Parent() != nil || sc.inSet[f] {
					continue
				}
				if p := fnPkg(f); p == nil || p.Path() != pkgRoot {
					continue
				}
				sc.inSet[f] = true
				q = append(q, item{f, it.d + 1})
			}
		}
	}
	count := map[*ssa.Function]int{}
	for _, fn := range sc.funcs {
		for _, b := range fn.Blocks {
			for _, in := range b.Instrs {
				call, ok := in.(ssa.CallInstruction)
				if !ok {
					continue
				}
				if f := staticCallee(call.Common()); f != nil && sc.inSet[f] && f != root && f.Parent() == nil {
					count[f]++
					sc.unique[f] = call
				}
			}
		}
	}
	for f, n := range count {
		if n != 1 {
			delete(sc.unique, f)
		}
	}
	return sc
}

func (sc *c13Scope) resolve(v ssa.Value) c13Origin {
	neg := false
	for i := 0; i < 6; i++ {
		o := c13Resolve(v)
		if o.Kind == "param" && o.Fn != sc.root && o.Path == "" {
			if call := sc.unique[o.Fn]; call != nil && o.Index < len(call.Common().Args) {
				neg = neg != o.Neg
				v = call.Common().Args[o.Index]
				continue
			}
		}
		o.Neg = o.Neg != neg
		return o
	}
	return c13Origin{Kind: "unknown", Why: "parameter chain too deep"}
}

// outermost keeps the calls made at the smallest helper depth: a helper that merely wraps
// another function of the same shape is the one the root hands its arguments to.
func (sc *c13Scope) outermost(calls []*ssa.Call) []*ssa.Call {
	min := -1
	for _, c := range calls {
		if d := sc.depth[c.Parent()]; min < 0 || d < min {
			min = d
		}
	}
	var out []*ssa.Call
	for _, c := range calls {
		if sc.depth[c.Parent()] == min {
			out = append(out, c)
		}
	}
	return out
}

// anyCalls: like calls, but also calls of function values (callee unknown statically).
func (sc *c13Scope) anyCalls(match func(call *ssa.Call) bool) []*ssa.Call {
	var out []*ssa.Call
	for _, fn := range sc.funcs {
		for _, b := range fn.Blocks {
			for _, in := range b.Instrs {
				if call, ok := in.(*ssa.Call); ok && match(call) {
					out = append(out, call)
				}
			}
		}
	}
	return out
}

func (sc *c13Scope) calls(match func(fn *ssa.Function, call *ssa.Call, callee *ssa.Function) bool) []*ssa.Call {
	var out []*ssa.Call
	for _, fn := range sc.funcs {
		for _, b := range fn.Blocks {
			for _, in := range b.Instrs {
				call, ok := in.(*ssa.Call)
				if !ok {
					continue
				}
				f := staticCallee(call.Common())
				if f == nil {
					continue
				}
				if match(fn, call, f) {
					out = append(out, call)
				}
			}
		}
	}
	return out
}

// ---------------------------------------------------------------------------
// finite-domain evaluation of small pure functions over abstract entries.
//
// Entries, identifiers and errors are tokens; integers and booleans are concrete; library
// calls are modelled (GetHash, Cid.Bytes, bytes.Equal, error constructors). Anything else
// stops the evaluation as "unsupported" and the obligation is reported undecided.
// Module callees and local closures are inlined; local struct variables and struct values
// (field address, field load/store, struct copy) are modelled field by field; slices.IndexFunc /
// Index / ContainsFunc / Contains run their predicate closure over the abstract list.
// Local arrays (also of structs) are modelled slot by slot: element address, element load,
// slicing, range loops; aggregates are copied on load and store.

type c13V interface{}

type (
	c13Int    int64
	c13Bool   bool
	c13Str    string
	c13NilV   struct{}
	c13Bytes  struct{ ID int }  // a non-empty byte string, equal to itself only
	c13Entry  struct{ Idx int } // the log entry at position Idx of the oldest-first list
	c13Cid    struct{ ID int }
	c13Opaque struct{ Tag string }
	c13Slice  struct {
		Back   *[]c13V
		Lo, Hi int
	}
	c13Err struct {
		Code  int64
		Coded bool
	}
	c13Fn struct {
		Fn   *ssa.Function
		Bind []c13V
		Ext  string // non-empty: callback supplied by the rule
	}
	c13Cell struct {
		Back *[]c13V
		I    int
	}
	c13Tup []c13V
	// a struct value (fields by index) and a pointer to a local struct variable
	c13StructV   struct{ F []c13V }
	c13StructPtr struct{ Back *[]c13V }
	// an array value and a pointer to a local array variable; elements (also struct values) live
	// in the slots, loads and stores of aggregates copy
	c13ArrV   struct{ E []c13V }
	c13ArrPtr struct{ Back *[]c13V }
)

type c13Stop struct{ Kind, Why string } // Kind: panic | unsupported

type c13Interp struct {
	steps   int
	visited []int // entries given to the external callback, in call order
}

func (ip *c13Interp) stop(kind, format string, a ...any) {
	panic(c13Stop{kind, fmt.Sprintf(format, a...)})
}

// c13Run evaluates fn(args); outcome is "return", "panic" (the evaluated code would panic)
// or "unsupported".
func c13Run(fn *ssa.Function, args []c13V) (res []c13V, visited []int, outcome, why string) {
	return c13RunFn(c13Fn{Fn: fn}, args)
}

// c13RunFn evaluates a function value (a function with the variables it captured).
func c13RunFn(fv c13Fn, args []c13V) (res []c13V, visited []int, outcome, why string) {
	fn := fv.Fn
	ip := &c13Interp{}
	defer func() {
		if r := recover(); r != nil {
			if s, ok := r.(c13Stop); ok {
				res, visited, outcome, why = nil, ip.visited, s.Kind, s.Why
				return
			}
			panic(r)
		}
	}()
	res = ip.call(fn, args, fv.Bind, 0)
	return res, ip.visited, "return", ""
}

func c13Zero(t types.Type) c13V {
	if b, ok := t.Underlying().(*types.Basic); ok {
		switch {
		case b.Info()&types.IsBoolean != 0:
			return c13Bool(false)
		case b.Info()&types.IsInteger != 0:
			return c13Int(0)
		case b.Info()&types.IsString != 0:
			return c13Str("")
		}
	}
	if st, ok := t.Underlying().(*types.Struct); ok {
		f := make([]c13V, st.NumFields())
		for i := range f {
			f[i] = c13Zero(st.Field(i).Type())
		}
		return c13StructV{F: f}
	}
	if at, ok := t.Underlying().(*types.Array); ok && at.Len() <= 64 {
		e := make([]c13V, int(at.Len()))
		for i := range e {
			e[i] = c13Zero(at.Elem())
		}
		return c13ArrV{E: e}
	}
	return c13NilV{}
}

// c13Copy: aggregates have value semantics.
func c13Copy(v c13V) c13V {
	switch x := v.(type) {
	case c13StructV:
		f := make([]c13V, len(x.F))
		for i := range f {
			f[i] = c13Copy(x.F[i])
		}
		return c13StructV{F: f}
	case c13ArrV:
		e := make([]c13V, len(x.E))
		for i := range e {
			e[i] = c13Copy(x.E[i])
		}
		return c13ArrV{E: e}
	}
	return v
}

func (ip *c13Interp) val(vals map[ssa.Value]c13V, v ssa.Value) c13V {
	switch x := v.(type) {
	case *ssa.Const:
		if x.Value == nil {
			return c13Zero(x.Type())
		}
		switch x.Value.Kind() {
		case constant.Bool:
			return c13Bool(constant.BoolVal(x.Value))
		case constant.Int:
			n, exact := constant.Int64Val(x.Value)
			if !exact {
				ip.stop("unsupported", "integer constant out of range")
			}
			return c13Int(n)
		case constant.String:
			return c13Str(constant.StringVal(x.Value))
		}
		ip.stop("unsupported", "constant %s", x)
	case *ssa.Function:
		return c13Fn{Fn: x}
	case *ssa.Global:
		ip.stop("unsupported", "package variable %s", x.Name())
	}
	r, ok := vals[v]
	if !ok {
		ip.stop("unsupported", "value %s of kind %T", v.Name(), v)
	}
	return r
}

func (ip *c13Interp) call(fn *ssa.Function, args, bind []c13V, depth int) []c13V {
	if depth > 6 {
		ip.stop("unsupported", "call depth exceeded in %s", fnName(fn))
	}
	if len(fn.Blocks) == 0 {
		ip.stop("unsupported", "%s has no body", fnName(fn))
	}
	vals := map[ssa.Value]c13V{}
	for i, p := range fn.Params {
		if i < len(args) {
			vals[p] = args[i]
		}
	}
	for i, fv := range fn.FreeVars {
		if i < len(bind) {
			vals[fv] = bind[i]
		}
	}
	var pred *ssa.BasicBlock
	b := fn.Blocks[0]
blocks:
	for {
		i := 0
		var phis []*ssa.Phi
		var pv []c13V
		for ; i < len(b.Instrs); i++ {
			ph, ok := b.Instrs[i].(*ssa.Phi)
			if !ok {
				break
			}
			k := -1
			for pi, p := range b.Preds {
				if p == pred {
					k = pi
					break
				}
			}
			if k < 0 {
				ip.stop("unsupported", "phi without predecessor")
			}
			phis = append(phis, ph)
			pv = append(pv, ip.val(vals, ph.Edges[k]))
		}
		for j, ph := range phis {
			vals[ph] = pv[j]
		}
		for ; i < len(b.Instrs); i++ {
			ip.steps++
			if ip.steps > 400000 {
				ip.stop("unsupported", "step budget exceeded (unbounded loop?) in %s", fnName(fn))
			}
			switch x := b.Instrs[i].(type) {
			case *ssa.DebugRef:
			case *ssa.If:
				c, ok := ip.val(vals, x.Cond).(c13Bool)
				if !ok {
					ip.stop("unsupported", "branch on a value the evaluation does not know in %s", fnName(fn))
				}
				pred = b
				if c {
					b = b.Succs[0]
				} else {
					b = b.Succs[1]
				}
				continue blocks
			case *ssa.Jump:
				pred, b = b, b.Succs[0]
				continue blocks
			case *ssa.Return:
				out := make([]c13V, len(x.Results))
				for ri, r := range x.Results {
					out[ri] = ip.val(vals, r)
				}
				return out
			case *ssa.Panic:
				ip.stop("panic", "explicit panic in %s", fnName(fn))
			case *ssa.Store:
				switch addr := ip.val(vals, x.Addr).(type) {
				case c13Cell:
					(*addr.Back)[addr.I] = c13Copy(ip.val(vals, x.Val))
				case c13ArrPtr:
					av, ok := ip.val(vals, x.Val).(c13ArrV)
					if !ok || len(av.E) != len(*addr.Back) {
						ip.stop("unsupported", "store of a non-array value into an array variable in %s", fnName(fn))
					}
					for i := range av.E {
						(*addr.Back)[i] = c13Copy(av.E[i])
					}
				case c13StructPtr:
					sv, ok := ip.val(vals, x.Val).(c13StructV)
					if !ok || len(sv.F) != len(*addr.Back) {
						ip.stop("unsupported", "store of a non-struct value into a struct variable in %s", fnName(fn))
					}
					for i := range sv.F {
						(*addr.Back)[i] = c13Copy(sv.F[i])
					}
				default:
					ip.stop("unsupported", "store through an unknown address in %s", fnName(fn))
				}
			case *ssa.Call:
				vals[x] = ip.doCall(vals, x, depth)
			case ssa.Value:
				vals[x] = ip.eval(vals, x)
			default:
				ip.stop("unsupported", "instruction %T in %s", x, fnName(fn))
			}
		}
		ip.stop("unsupported", "block without terminator in %s", fnName(fn))
	}
}

func c13BytesEq(a, b c13V) (bool, bool) {
	id := func(v c13V) (int, bool) {
		switch x := v.(type) {
		case c13NilV:
			return -1, true // empty
		case c13Bytes:
			return x.ID, true
		}
		return 0, false
	}
	x, ok1 := id(a)
	y, ok2 := id(b)
	return x == y, ok1 && ok2
}

func (ip *c13Interp) eval(vals map[ssa.Value]c13V, v ssa.Value) c13V {
	switch x := v.(type) {
	case *ssa.Alloc:
		z := c13Zero(x.Type().Underlying().(*types.Pointer).Elem())
		if sv, ok := z.(c13StructV); ok {
			return c13StructPtr{Back: &sv.F}
		}
		if av, ok := z.(c13ArrV); ok {
			return c13ArrPtr{Back: &av.E}
		}
		back := []c13V{z}
		return c13Cell{Back: &back, I: 0}
	case *ssa.FieldAddr:
		var fields *[]c13V
		switch p := ip.val(vals, x.X).(type) {
		case c13StructPtr:
			fields = p.Back
		case c13Cell:
			// pointer to a struct stored in a slot (array element, nested field): its fields share storage
			if sv, ok := (*p.Back)[p.I].(c13StructV); ok {
				fields = &sv.F
			}
		}
		if fields == nil || x.Field >= len(*fields) {
			ip.stop("unsupported", "field of something that is not a local struct variable")
		}
		return c13Cell{Back: fields, I: x.Field}
	case *ssa.Index:
		av, ok := ip.val(vals, x.X).(c13ArrV)
		idx, ok2 := ip.val(vals, x.Index).(c13Int)
		if !ok || !ok2 {
			ip.stop("unsupported", "indexing %T", ip.val(vals, x.X))
		}
		if idx < 0 || int(idx) >= len(av.E) {
			ip.stop("panic", "index %d out of range with length %d", idx, len(av.E))
		}
		return c13Copy(av.E[idx])
	case *ssa.Field:
		sv, ok := ip.val(vals, x.X).(c13StructV)
		if !ok || x.Field >= len(sv.F) {
			ip.stop("unsupported", "field of something that is not a struct value")
		}
		return sv.F[x.Field]
	case *ssa.BinOp:
		return ip.binop(x.Op, ip.val(vals, x.X), ip.val(vals, x.Y))
	case *ssa.UnOp:
		a := ip.val(vals, x.X)
		switch x.Op {
		case token.NOT:
			if b, ok := a.(c13Bool); ok {
				return !b
			}
		case token.SUB:
			if n, ok := a.(c13Int); ok {
				return -n
			}
		case token.MUL:
			switch c := a.(type) {
			case c13Cell:
				return c13Copy((*c.Back)[c.I])
			case c13StructPtr:
				return c13Copy(c13StructV{F: *c.Back})
			case c13ArrPtr:
				return c13Copy(c13ArrV{E: *c.Back})
			}
		}
		ip.stop("unsupported", "operator %s on %T", x.Op, a)
	case *ssa.IndexAddr:
		if ap, isArr := ip.val(vals, x.X).(c13ArrPtr); isArr {
			idx, okI := ip.val(vals, x.Index).(c13Int)
			if !okI {
				ip.stop("unsupported", "array index that is not a known integer")
			}
			if idx < 0 || int(idx) >= len(*ap.Back) {
				ip.stop("panic", "index %d out of range with length %d", idx, len(*ap.Back))
			}
			return c13Cell{Back: ap.Back, I: int(idx)}
		}
		s, ok := ip.val(vals, x.X).(c13Slice)
		idx, ok2 := ip.val(vals, x.Index).(c13Int)
		if !ok || !ok2 {
			if _, isNil := ip.val(vals, x.X).(c13NilV); isNil && ok2 {
				ip.stop("panic", "index %d out of range of a nil slice", idx)
			}
			ip.stop("unsupported", "indexing %T", ip.val(vals, x.X))
		}
		if idx < 0 || int(idx) >= s.Hi-s.Lo {
			ip.stop("panic", "index %d out of range with length %d", idx, s.Hi-s.Lo)
		}
		return c13Cell{Back: s.Back, I: s.Lo + int(idx)}
	case *ssa.Slice:
		if x.Max != nil {
			ip.stop("unsupported", "three-index slice")
		}
		base := ip.val(vals, x.X)
		var s c13Slice
		switch bv := base.(type) {
		case c13Slice:
			s = bv
		case c13ArrPtr:
			s = c13Slice{Back: bv.Back, Lo: 0, Hi: len(*bv.Back)}
		case c13NilV:
			empty := []c13V{}
			s = c13Slice{Back: &empty}
		default:
			ip.stop("unsupported", "slicing %T", base)
		}
		lo, hi := 0, s.Hi-s.Lo
		if x.Low != nil {
			n, ok := ip.val(vals, x.Low).(c13Int)
			if !ok {
				ip.stop("unsupported", "slice bound")
			}
			lo = int(n)
		}
		if x.High != nil {
			n, ok := ip.val(vals, x.High).(c13Int)
			if !ok {
				ip.stop("unsupported", "slice bound")
			}
			hi = int(n)
		}
		capacity := len(*s.Back) - s.Lo
		if lo < 0 || hi < lo || hi > capacity {
			ip.stop("panic", "slice bounds out of range [%d:%d] with capacity %d", lo, hi, capacity)
		}
		return c13Slice{Back: s.Back, Lo: s.Lo + lo, Hi: s.Lo + hi}
	case *ssa.MakeInterface:
		a := ip.val(vals, x.X)
		if n, ok := a.(c13Int); ok && c13Named(x.X.Type(), c13PkgErrcode, "ErrCode") {
			return c13Err{Code: int64(n), Coded: true}
		}
		return a
	case *ssa.ChangeInterface:
		return ip.val(vals, x.X)
	case *ssa.ChangeType:
		return ip.val(vals, x.X)
	case *ssa.Convert:
		a := ip.val(vals, x.X)
		if bt, ok := x.Type().Underlying().(*types.Basic); ok {
			switch av := a.(type) {
			case c13Int:
				if bt.Info()&types.IsInteger != 0 {
					return av
				}
			case c13Bytes:
				if bt.Info()&types.IsString != 0 {
					return c13Str(fmt.Sprintf("\x00bytes#%d", av.ID))
				}
			case c13NilV:
				if bt.Info()&types.IsString != 0 {
					return c13Str("")
				}
			}
		}
		ip.stop("unsupported", "conversion of %T to %s", a, x.Type())
	case *ssa.Extract:
		t, ok := ip.val(vals, x.Tuple).(c13Tup)
		if !ok || x.Index >= len(t) {
			ip.stop("unsupported", "tuple component")
		}
		return t[x.Index]
	case *ssa.MakeClosure:
		f, _ := x.Fn.(*ssa.Function)
		var bind []c13V
		for _, b := range x.Bindings {
			bind = append(bind, ip.val(vals, b))
		}
		return c13Fn{Fn: f, Bind: bind}
	case *ssa.MakeSlice:
		n, ok := ip.val(vals, x.Len).(c13Int)
		if !ok || n < 0 || n > 4096 {
			ip.stop("unsupported", "make with unknown length")
		}
		back := make([]c13V, int(n))
		z := c13Zero(x.Type().Underlying().(*types.Slice).Elem())
		for i := range back {
			back[i] = z
		}
		return c13Slice{Back: &back, Lo: 0, Hi: int(n)}
	}
	ip.stop("unsupported", "instruction %T", v)
	return nil
}

func (ip *c13Interp) binop(op token.Token, a, b c13V) c13V {
	switch x := a.(type) {
	case c13Int:
		y, ok := b.(c13Int)
		if !ok {
			break
		}
		switch op {
		case token.ADD:
			return x + y
		case token.SUB:
			return x - y
		case token.MUL:
			return x * y
		case token.QUO, token.REM:
			if y == 0 {
				ip.stop("panic", "integer division by zero")
			}
			if op == token.QUO {
				return x / y
			}
			return x % y
		case token.EQL:
			return c13Bool(x == y)
		case token.NEQ:
			return c13Bool(x != y)
		case token.LSS:
			return c13Bool(x < y)
		case token.LEQ:
			return c13Bool(x <= y)
		case token.GTR:
			return c13Bool(x > y)
		case token.GEQ:
			return c13Bool(x >= y)
		}
	case c13Bool:
		y, ok := b.(c13Bool)
		if !ok {
			break
		}
		switch op {
		case token.EQL:
			return c13Bool(x == y)
		case token.NEQ:
			return c13Bool(x != y)
		case token.AND, token.LAND:
			return c13Bool(x && y)
		case token.OR, token.LOR:
			return c13Bool(x || y)
		case token.XOR:
			return c13Bool(x != y)
		}
	case c13Str:
		y, ok := b.(c13Str)
		if !ok {
			break
		}
		switch op {
		case token.EQL:
			return c13Bool(x == y)
		case token.NEQ:
			return c13Bool(x != y)
		case token.ADD:
			return x + y
		}
	}
	if op == token.EQL || op == token.NEQ {
		_, an := a.(c13NilV)
		_, bn := b.(c13NilV)
		nonNil := func(v c13V) bool {
			switch v.(type) {
			case c13Bytes, c13Slice, c13Err, c13Fn, c13Entry, c13Opaque:
				return true
			}
			return false
		}
		switch {
		case an && bn:
			return c13Bool(op == token.EQL)
		case an && nonNil(b), bn && nonNil(a):
			return c13Bool(op == token.NEQ)
		}
	}
	ip.stop("unsupported", "operator %s on %T and %T", op, a, b)
	return nil
}

func (ip *c13Interp) doCall(vals map[ssa.Value]c13V, x *ssa.Call, depth int) c13V {
	cc := x.Common()
	args := make([]c13V, len(cc.Args))
	for i, a := range cc.Args {
		args[i] = ip.val(vals, a)
	}
	pack := func(res []c13V) c13V {
		switch cc.Signature().Results().Len() {
		case 0:
			return nil
		case 1:
			if len(res) == 1 {
				return res[0]
			}
		default:
			if len(res) == cc.Signature().Results().Len() {
				return c13Tup(res)
			}
		}
		ip.stop("unsupported", "result arity of %s", calleeKey(cc))
		return nil
	}
	if bi, ok := cc.Value.(*ssa.Builtin); ok {
		switch bi.Name() {
		case "len", "cap":
			switch a := args[0].(type) {
			case c13Slice:
				if bi.Name() == "cap" {
					return c13Int(len(*a.Back) - a.Lo)
				}
				return c13Int(a.Hi - a.Lo)
			case c13NilV:
				return c13Int(0)
			case c13Bytes:
				return c13Int(32) // some non-empty identifier
			case c13Str:
				return c13Int(len(a))
			}
		case "min", "max":
			if len(args) == 2 {
				p, ok1 := args[0].(c13Int)
				q, ok2 := args[1].(c13Int)
				if ok1 && ok2 {
					if (bi.Name() == "min") == (p < q) {
						return p
					}
					return q
				}
			}
		}
		ip.stop("unsupported", "builtin %s", bi.Name())
	}
	key := calleeKey(cc)
	if cc.IsInvoke() {
		recv := ip.val(vals, cc.Value)
		if e, ok := recv.(c13Entry); ok && cc.Method.Name() == "GetHash" {
			return c13Cid{ID: e.Idx}
		}
		ip.stop("unsupported", "method call %s", key)
	}
	switch {
	case key == "(github.com/ipfs/go-cid.Cid).Bytes":
		if c, ok := args[0].(c13Cid); ok {
			return c13Bytes{ID: c.ID}
		}
	case key == "(github.com/ipfs/go-cid.Cid).String", key == "(github.com/ipfs/go-cid.Cid).KeyString":
		if c, ok := args[0].(c13Cid); ok {
			return c13Str(fmt.Sprintf("\x00cid#%d", c.ID))
		}
	case key == "(github.com/ipfs/go-cid.Cid).Equals":
		p, ok1 := args[0].(c13Cid)
		q, ok2 := args[1].(c13Cid)
		if ok1 && ok2 {
			return c13Bool(p.ID == q.ID)
		}
	case key == "bytes.Equal":
		if eq, ok := c13BytesEq(args[0], args[1]); ok {
			return c13Bool(eq)
		}
	case key == "slices.IndexFunc", key == "slices.ContainsFunc", key == "slices.Index", key == "slices.Contains":
		// first index whose element satisfies the predicate (or equals the value), -1 if none
		var elems []c13V
		switch sl := args[0].(type) {
		case c13Slice:
			elems = (*sl.Back)[sl.Lo:sl.Hi]
		case c13NilV:
		default:
			ip.stop("unsupported", "%s over %T", key, args[0])
		}
		found := -1
		for i, e := range elems {
			var hit bool
			if strings.HasSuffix(key, "Func") {
				pred, ok := args[1].(c13Fn)
				if !ok || pred.Ext != "" || pred.Fn == nil || pred.Fn.Blocks == nil {
					ip.stop("unsupported", "%s with a predicate that has no body", key)
				}
				r := ip.call(pred.Fn, []c13V{e}, pred.Bind, depth+1)
				b, isB := c13V(nil), false
				if len(r) == 1 {
					b, isB = r[0], true
				}
				bv, okB := b.(c13Bool)
				if !isB || !okB {
					ip.stop("unsupported", "%s predicate result", key)
				}
				hit = bool(bv)
			} else {
				x, ok1 := e.(c13Entry)
				y, ok2 := args[1].(c13Entry)
				if !ok1 || !ok2 {
					ip.stop("unsupported", "%s on elements that are not entries", key)
				}
				hit = x.Idx == y.Idx
			}
			if hit {
				found = i
				break
			}
		}
		if strings.HasPrefix(key, "slices.Contains") {
			return c13Bool(found >= 0)
		}
		return c13Int(found)
	case key == "errors.New", key == "fmt.Errorf", strings.HasPrefix(key, "github.com/pkg/errors."):
		return c13Err{}
	case strings.HasSuffix(key, "pkg/errcode.ErrCode).Wrap"):
		if n, ok := args[0].(c13Int); ok {
			return c13Err{Code: int64(n), Coded: true}
		}
	}
	if f := staticCallee(cc); f != nil {
		if f.Blocks == nil {
			if o := f.Origin(); o != nil && o.Blocks != nil {
				f = o
			}
		}
		if f.Blocks != nil && inModule(f) {
			var bind []c13V
			if mc, ok := cc.Value.(*ssa.MakeClosure); ok {
				for _, b := range mc.Bindings {
					bind = append(bind, ip.val(vals, b))
				}
			}
			return pack(ip.call(f, args, bind, depth+1))
		}
		ip.stop("unsupported", "call to %s", key)
	}
	fv, ok := ip.val(vals, cc.Value).(c13Fn)
	if !ok {
		ip.stop("unsupported", "call of an unknown function value")
	}
	if fv.Ext != "" {
		if len(args) >= 1 {
			if e, ok := args[0].(c13Entry); ok {
				ip.visited = append(ip.visited, e.Idx)
				return pack(make([]c13V, 0))
			}
		}
		ip.stop("unsupported", "callback invoked with something that is not a listed entry")
	}
	if fv.Fn == nil || fv.Fn.Blocks == nil {
		ip.stop("unsupported", "call of a function value without body")
	}
	return pack(ip.call(fv.Fn, args, fv.Bind, depth+1))
}

func c13EntryList(n int) c13Slice {
	back := make([]c13V, n)
	for i := range back {
		back[i] = c13Entry{Idx: i}
	}
	return c13Slice{Back: &back, Lo: 0, Hi: n}
}

// ---------------------------------------------------------------------------
// anchors

type c13Store struct {
	Name                     string
	LE                       *ssa.Function
	SinceIdx, UntilIdx, RevI int // parameter indices in LE.Params
	Scope                    *c13Scope
	Selector                 *ssa.Call
	Iterator                 *ssa.Call
}

// c13ListParams: positions of (since, until, reverse) in the exported ListEvents signature:
// the two []byte parameters in order, and the bool.
func c13ListParams(fn *ssa.Function) (since, until, rev int, ok bool) {
	since, until, rev = -1, -1, -1
	nb := 0
	for i, p := range fn.Params {
		if i == 0 && fn.Signature.Recv() != nil {
			continue
		}
		switch {
		case c13IsBytes(p.Type()):
			if nb == 0 {
				since = i
			} else if nb == 1 {
				until = i
			}
			nb++
		case isBoolType(p.Type()):
			if rev >= 0 {
				return 0, 0, 0, false
			}
			rev = i
		}
	}
	return since, until, rev, nb == 2 && rev >= 0
}

func c13IsSelector(f *ssa.Function) bool {
	if f == nil || f.Blocks == nil || !inModule(f) {
		return false
	}
	ne, nb := 0, 0
	for _, p := range f.Params {
		switch {
		case c13IsEntrySlice(p.Type()):
			ne++
		case c13IsBytes(p.Type()):
			nb++
		case isBoolType(p.Type()):
			return false
		}
	}
	res := f.Signature.Results()
	if ne != 1 || nb != 2 || res.Len() != 2 {
		return false
	}
	return c13IsEntrySlice(res.At(0).Type()) && isErrorType(res.At(1).Type())
}

// c13CallParams: the parameter types and names a call's arguments line up with (the callee's
// parameters including a receiver for a static call, the signature's for a function value).
func c13CallParams(call *ssa.Call) (typs []types.Type, names []string) {
	cc := call.Common()
	if f := staticCallee(cc); f != nil {
		for _, p := range f.Params {
			typs = append(typs, p.Type())
			names = append(names, p.Name())
		}
		return
	}
	ps := cc.Signature().Params()
	for i := 0; i < ps.Len(); i++ {
		typs = append(typs, ps.At(i).Type())
		names = append(names, ps.At(i).Name())
	}
	return
}

// c13IsIterSite: a call that walks a list of entries with a per-entry visitor: exactly one
// []entry argument and one func(entry) argument, at most one bool (the direction). The callee
// is a module function, or a function value (then chosen elsewhere, e.g. from the direction).
func c13IsIterSite(call *ssa.Call) bool {
	cc := call.Common()
	if cc.IsInvoke() {
		return false
	}
	if _, isB := cc.Value.(*ssa.Builtin); isB {
		return false
	}
	if f := staticCallee(cc); f != nil && (f.Blocks == nil || !inModule(f)) {
		return false
	}
	typs, _ := c13CallParams(call)
	if len(typs) != len(cc.Args) {
		return false
	}
	ne, nb, nf := 0, 0, 0
	for _, t := range typs {
		switch {
		case c13IsEntrySlice(t):
			ne++
		case isBoolType(t):
			nb++
		case c13IsEntryFunc(t):
			nf++
		}
	}
	return ne == 1 && nf == 1 && nb <= 1
}

// iterFuncs: the function that walks the entries when ListEvents is called with reverse=false
// and with reverse=true. A static callee is that function for both; a function value is
// followed to the module function that returned it (the chooser), which is evaluated with its
// arguments composed as ListEvents passes them.
func (st *c13Store) iterFuncs() (fns map[bool]c13Fn, name, undecided string) {
	cc := st.Iterator.Common()
	if f := staticCallee(cc); f != nil {
		var bind []c13V
		if _, isMC := cc.Value.(*ssa.MakeClosure); isMC {
			return nil, "", "the iterator is a function literal called in place"
		}
		return map[bool]c13Fn{false: {Fn: f, Bind: bind}, true: {Fn: f, Bind: bind}}, fnName(f), ""
	}
	o := st.Scope.resolve(cc.Value)
	if o.Kind != "result" || o.Neg || o.Path != "" {
		return nil, "", "the function that walks the entries is " + o.String() + ": not a module function and not the result of one"
	}
	chooser := staticCallee(o.Call.Common())
	if chooser == nil || chooser.Blocks == nil || !inModule(chooser) {
		return nil, "", "the function that walks the entries is returned by " + calleeKey(o.Call.Common()) + ", which has no body in the module"
	}
	specs, why := st.argSpecs(o.Call)
	if specs == nil {
		return nil, "", why
	}
	fns = map[bool]c13Fn{}
	for _, rev := range []bool{false, true} {
		args := make([]c13V, len(specs))
		for i, sp := range specs {
			switch sp.Kind {
			case "reverse":
				args[i] = c13Bool(rev != sp.Neg)
			case "const":
				args[i] = c13ConstVal(sp.C, sp.Neg)
			default:
				args[i] = c13Opaque{Tag: sp.Kind}
			}
		}
		res, _, outcome, ywhy := c13Run(chooser, args)
		if outcome != "return" {
			return nil, "", fmt.Sprintf("%s, which chooses the function that walks the entries, %s: %s", fnName(chooser), map[bool]string{true: "panics", false: "is written in a form the evaluator does not model"}[outcome == "panic"], ywhy)
		}
		fv, ok := c13V(nil), false
		if o.Index < len(res) {
			fv, ok = res[o.Index], true
		}
		f, isF := fv.(c13Fn)
		if !ok || !isF || f.Fn == nil || f.Fn.Blocks == nil {
			return nil, "", fmt.Sprintf("%s does not return a module function for reverse=%v", fnName(chooser), rev)
		}
		fns[rev] = f
	}
	return fns, "the function chosen by " + fnName(chooser), ""
}

type c13Handler struct {
	Name   string
	Fn     *ssa.Function
	ReqIdx int
	Scope  *c13Scope
	List   *ssa.Call // the call of the store's ListEvents
	Store  *c13Store
}

var c13ReqFields = []string{"SinceId", "UntilId", "SinceNow", "UntilNow", "ReverseOrder"}

func c13ReqParam(fn *ssa.Function) int {
	for i, p := range fn.Params {
		pt, ok := p.Type().Underlying().(*types.Pointer)
		if !ok {
			continue
		}
		st, ok := pt.Elem().Underlying().(*types.Struct)
		if !ok {
			continue
		}
		have := map[string]bool{}
		for j := 0; j < st.NumFields(); j++ {
			have[st.Field(j).Name()] = true
		}
		all := true
		for _, f := range c13ReqFields {
			if !have[f] {
				all = false
			}
		}
		if all {
			return i
		}
	}
	return -1
}

// ---------------------------------------------------------------------------

func runC13(c *Ctx) {
	w := c.W
	var stores []*c13Store
	for _, tn := range []string{"MetadataStore", "MessageStore"} {
		st := c13FindStore(c, tn)
		if st != nil {
			stores = append(stores, st)
		}
	}
	invalidRange, haveCode := int64(0), false
	if p := w.typesPkg(c13PkgErrcode); p != nil {
		if k, ok := p.Scope().Lookup("ErrCode_ErrInvalidRange").(*types.Const); ok {
			invalidRange, haveCode = constant.Int64Val(k.Val())
		}
	}
	for _, st := range stores {
		c13D1(c, st)
		c13D2Store(c, st)
		c13D4(c, st, invalidRange, haveCode)
		c13D5Store(c, st)
		c13D8(c, st)
	}
	handlers := c13FindHandlers(c, stores)
	for _, h := range handlers {
		c13D2Handler(c, h)
		c13D3(c, h)
		c13D5Handler(c, h)
		c13D6(c, h)
		c13D7(c, h)
	}
}

func c13FindStore(c *Ctx, typeName string) *c13Store {
	w := c.W
	le := w.lookupMethod(pkgRoot, typeName, "ListEvents")
	name := typeName + ".ListEvents"
	if le == nil || le.Blocks == nil {
		c.undecided("D1", name, token.NoPos, "exported method %s not found in %s", name, pkgRoot)
		return nil
	}
	c.analysed(le)
	st := &c13Store{Name: fnName(le), LE: le}
	var ok bool
	st.SinceIdx, st.UntilIdx, st.RevI, ok = c13ListParams(le)
	if !ok {
		c.undecided("D1", st.Name, le.Pos(), "ListEvents no longer has the shape (ctx, since []byte, until []byte, reverse bool): the roles of its parameters cannot be told apart")
		return nil
	}
	st.Scope = c13NewScope(le, 2)
	for _, f := range st.Scope.funcs {
		c.analysed(f)
	}
	sel := st.Scope.outermost(st.Scope.calls(func(_ *ssa.Function, _ *ssa.Call, f *ssa.Function) bool { return c13IsSelector(f) }))
	it := st.Scope.outermost(st.Scope.anyCalls(c13IsIterSite))
	if len(sel) == 1 {
		st.Selector = sel[0]
	}
	if len(it) == 1 {
		st.Iterator = it[0]
	}
	c.count("selector_call_sites", len(sel))
	c.count("iterator_call_sites", len(it))
	return st
}

// ---- D1: order source ------------------------------------------------------

var c13Reorderers = []string{"sort.", "slices.Sort", "slices.Reverse", "berty.tech/go-ipfs-log/entry/sorting.Sort", "berty.tech/go-ipfs-log/entry/sorting.Reverse"}

func c13IsReorderer(key string) bool {
	for _, p := range c13Reorderers {
		if strings.HasPrefix(key, p) {
			return true
		}
	}
	return false
}

// c13ReorderedBy: a call that reorders slice value v (or the variable holding it) in place.
func c13ReorderedBy(v ssa.Value) string {
	seen := map[ssa.Value]bool{}
	var found string
	var visit func(x ssa.Value, d int)
	visit = func(x ssa.Value, d int) {
		if x == nil || seen[x] || x.Referrers() == nil || d > 4 {
			return
		}
		seen[x] = true
		for _, r := range *x.Referrers() {
			switch u := r.(type) {
			case ssa.CallInstruction:
				if k := calleeKey(u.Common()); c13IsReorderer(k) {
					found = k
				}
			case *ssa.Store:
				if u.Val == x {
					visit(u.Addr, d+1)
				}
			case *ssa.UnOp:
				if u.Op == token.MUL {
					visit(u, d+1)
				}
			case *ssa.MakeInterface:
				visit(u, d+1)
			case *ssa.ChangeType:
				visit(u, d+1)
			case *ssa.Slice:
				visit(u, d+1)
			case *ssa.MakeClosure:
				if f, ok := u.Fn.(*ssa.Function); ok {
					for i, b := range u.Bindings {
						if b == x && i < len(f.FreeVars) {
							visit(f.FreeVars[i], d+1)
						}
					}
				}
			}
		}
	}
	visit(v, 0)
	return found
}

func c13D1(c *Ctx, st *c13Store) {
	construct := st.Name + "+entries-source"
	if st.Selector == nil {
		c.undecided("D1", construct, st.LE.Pos(), "ListEvents (with its closures and helpers) does not call exactly one range selector ([]entry, []byte, []byte) -> ([]entry, error): the listed slice cannot be located")
		return
	}
	selF := staticCallee(st.Selector.Common())
	var arg ssa.Value
	for i, p := range selF.Params {
		if c13IsEntrySlice(p.Type()) && i < len(st.Selector.Common().Args) {
			arg = st.Selector.Common().Args[i]
		}
	}
	pos := posOf(st.Selector)
	cur := arg
	reversals := 0
	var chain []string
	source := ""
	why := ""
	for step := 0; step < 16 && source == "" && why == ""; step++ {
		if k := c13ReorderedBy(cur); k != "" {
			why = "the slice is reordered in place by " + k + ", whose comparator the analysis does not evaluate"
			break
		}
		o := st.Scope.resolve(cur)
		if o.Kind != "result" {
			why = "the listed slice comes from " + o.String() + ", not from the store's log"
			break
		}
		cc := o.Call.Common()
		if cc.IsInvoke() {
			m := cc.Method.Name()
			switch {
			case c13IsOrdered(cc.Value.Type()):
				switch m {
				case "Slice", "Copy":
					chain = append(chain, m+"()")
					cur = cc.Value
				case "Reverse":
					chain = append(chain, m+"()")
					reversals++
					cur = cc.Value
				default:
					why = "ordered-entries method " + m + " is not an order-preserving view the rule knows"
				}
			case c13IsLog(cc.Value.Type()):
				chain = append(chain, m+"()")
				switch m {
				case "Values", "GetEntries", "Heads", "RawHeads":
					source = m
				default:
					why = "log method " + m + " is not an entry listing the rule knows"
				}
			default:
				why = "interface call " + calleeKey(cc)
			}
			continue
		}
		f := staticCallee(cc)
		if f != nil && f.Blocks != nil && inModule(f) {
			rets := returnsOf(f)
			if len(rets) == 1 && o.Index < len(retResults(rets[0])) {
				chain = append(chain, f.Name()+"(...)")
				cur = retResults(rets[0])[o.Index]
				continue
			}
		}
		why = "call " + calleeKey(cc) + " is not an entry listing the rule knows"
	}
	for i, j := 0, len(chain)-1; i < j; i, j = i+1, j-1 {
		chain[i], chain[j] = chain[j], chain[i]
	}
	shape := "log." + strings.Join(chain, ".")
	switch {
	case source == "" && why == "":
		c.undecided("D1", construct, pos, "order source of the listed slice not resolved")
	case source == "":
		c.undecided("D1", construct, pos, "order of the listed slice cannot be decided: %s", why)
	case source == "Values" && reversals%2 == 0:
		c.ok("D1", construct, pos, "listed slice is %s: the log's clock-sorted traversal, oldest first, identical on every replica holding the same entries", shape)
	case source == "Values":
		c.fail("D1", construct, pos, "listed slice is %s: the sorted traversal reversed, i.e. newest first; a forward listing then runs backwards and since/until select the mirrored range", shape)
	case source == "GetEntries":
		c.fail("D1", construct, pos, "listed slice is %s: GetEntries() is the insertion-ordered entry map, so the listing depends on how entries arrived (local appends insert oldest first, a replicated batch is inserted heads first)%s; list from Values()", shape, map[bool]string{true: " and the reversal makes a locally written log list newest first", false: ""}[reversals%2 == 1])
	default:
		c.fail("D1", construct, pos, "listed slice is %s: only the heads of the log, not its entries in causal order", shape)
	}
}

// ---- D2: plumbing ----------------------------------------------------------

func c13D2Store(c *Ctx, st *c13Store) {
	construct := st.Name + "+iterator.entries"
	if st.Iterator == nil || st.Selector == nil {
		c.undecided("D2", construct, st.LE.Pos(), "ListEvents (with its closures and helpers) does not call exactly one selector and one iterator ([]entry, bool, func(entry)): plumbing cannot be followed")
		return
	}
	itTypes, _ := c13CallParams(st.Iterator)
	itFns, _, itWhy := st.iterFuncs()
	for _, f := range itFns {
		c.analysed(f.Fn)
	}
	c.analysed(staticCallee(st.Selector.Common()))
	for i, pt := range itTypes {
		if !c13IsEntrySlice(pt) {
			continue
		}
		a := st.Iterator.Common().Args[i]
		o := st.Scope.resolve(a)
		if k := c13ReorderedBy(st.Selector); k != "" {
			c.fail("D2", construct, posOf(st.Iterator), "the selected range is reordered in place by %s between selection and iteration", k)
			continue
		}
		good := st.fromSelector(o, 0)
		c.check(good, "D2", construct, posOf(st.Iterator), "the iterator walks the slice returned by the range selector", "the iterator is given "+o.String()+" instead of the slice returned by the range selector: since/until no longer bound the listing")
	}
	// the callback emits synchronously
	construct = st.Name + "+callback"
	for i, pt := range itTypes {
		if !c13IsEntryFunc(pt) {
			continue
		}
		a := st.Iterator.Common().Args[i]
		for {
			if ct, ok := a.(*ssa.ChangeType); ok {
				a = ct.X
				continue
			}
			break
		}
		if itFns == nil {
			c.undecided("D2", construct, posOf(st.Iterator), "%s", itWhy)
			continue
		}
		var cb *ssa.Function
		switch x := a.(type) {
		case *ssa.MakeClosure:
			cb, _ = x.Fn.(*ssa.Function)
		case *ssa.Function:
			cb = x
		}
		if cb == nil {
			c.undecided("D2", construct, posOf(st.Iterator), "the per-entry callback is not a function literal or named function")
			continue
		}
		async := ""
		scan := append([]*ssa.Function(nil), c13NewScope(cb, 0).funcs...)
		for _, rev := range []bool{false, true} {
			scan = append(scan, c13NewScope(itFns[rev].Fn, 0).funcs...)
		}
		for _, f := range scan {
			for _, b := range f.Blocks {
				for _, in := range b.Instrs {
					if g, ok := in.(*ssa.Go); ok {
						async = c.pos(posOf(g))
					}
				}
			}
		}
		c.check(async == "", "D2", construct, cb.Pos(), "entries are opened and emitted synchronously, in iteration order", "a goroutine is started per entry at "+async+": events are emitted in scheduling order, not in log order")
	}
}

// fromSelector: the value is result 0 of the selector call, possibly handed back unchanged
// through the helpers that wrap it (their error returns hand back nil).
func (st *c13Store) fromSelector(o c13Origin, depth int) bool {
	if o.Kind != "result" || o.Neg || depth > 3 {
		return false
	}
	if o.Call == st.Selector {
		return o.Index == 0
	}
	f := staticCallee(o.Call.Common())
	if f == nil || f.Blocks == nil || !st.Scope.inSet[f] {
		return false
	}
	n := 0
	for _, r := range returnsOf(f) {
		res := retResults(r)
		if o.Index >= len(res) {
			return false
		}
		if isNilConst(res[o.Index]) {
			continue
		}
		if !st.fromSelector(c13Resolve(res[o.Index]), depth+1) {
			return false
		}
		n++
	}
	return n > 0
}

func c13D2Handler(c *Ctx, h *c13Handler) {
	want := []struct {
		idx   int
		field string
		role  string
	}{{h.Store.SinceIdx, ".SinceId", "since"}, {h.Store.UntilIdx, ".UntilId", "until"}, {h.Store.RevI, ".ReverseOrder", "reverse"}}
	for _, wnt := range want {
		construct := fmt.Sprintf("%s->ListEvents.%s", h.Name, wnt.role)
		a := h.List.Common().Args[wnt.idx]
		o := h.Scope.resolve(a)
		good := o.Kind == "param" && o.Fn == h.Fn && o.Index == h.ReqIdx && o.Path == wnt.field && !o.Neg
		c.check(good, "D2", construct, posOf(h.List), "request field "+strings.TrimPrefix(wnt.field, ".")+" is passed as "+wnt.role, fmt.Sprintf("ListEvents receives %s as its %s parameter instead of the request's %s", o.String(), wnt.role, strings.TrimPrefix(wnt.field, ".")))
	}
}

// ---- D4: range selection and iteration order, evaluated ----------------------

type c13ArgSpec struct {
	Kind string // entries | since | until | reverse | const | callback | opaque
	Neg  bool
	C    *ssa.Const
}

func (st *c13Store) argSpecs(call *ssa.Call) ([]c13ArgSpec, string) {
	typs, names := c13CallParams(call)
	callee := calleeKey(call.Common())
	if f := staticCallee(call.Common()); f != nil {
		callee = f.Name()
	} else if callee == "" {
		callee = "the function value called"
	}
	specs := make([]c13ArgSpec, len(typs))
	for i, pt := range typs {
		if i >= len(call.Common().Args) {
			return nil, "argument count"
		}
		a := call.Common().Args[i]
		switch {
		case c13IsEntrySlice(pt):
			specs[i] = c13ArgSpec{Kind: "entries"}
		case c13IsEntryFunc(pt):
			specs[i] = c13ArgSpec{Kind: "callback"}
		case c13IsBytes(pt), isBoolType(pt):
			o := st.Scope.resolve(a)
			switch {
			case o.Kind == "const":
				specs[i] = c13ArgSpec{Kind: "const", C: o.Const, Neg: o.Neg}
			case o.Kind == "param" && o.Fn == st.LE && o.Path == "" && o.Index == st.SinceIdx:
				specs[i] = c13ArgSpec{Kind: "since"}
			case o.Kind == "param" && o.Fn == st.LE && o.Path == "" && o.Index == st.UntilIdx:
				specs[i] = c13ArgSpec{Kind: "until"}
			case o.Kind == "param" && o.Fn == st.LE && o.Path == "" && o.Index == st.RevI:
				specs[i] = c13ArgSpec{Kind: "reverse", Neg: o.Neg}
			default:
				return nil, fmt.Sprintf("argument %q of %s is %s, not one of ListEvents' since/until/reverse parameters or a constant", names[i], callee, o.String())
			}
		default:
			specs[i] = c13ArgSpec{Kind: "opaque"}
		}
	}
	return specs, ""
}

func c13ConstVal(k *ssa.Const, neg bool) c13V {
	if k.Value == nil {
		return c13Zero(k.Type())
	}
	switch k.Value.Kind() {
	case constant.Bool:
		return c13Bool(constant.BoolVal(k.Value) != neg)
	case constant.Int:
		n, _ := constant.Int64Val(k.Value)
		return c13Int(n)
	case constant.String:
		return c13Str(constant.StringVal(k.Value))
	}
	return c13Opaque{Tag: "const"}
}

func c13IDVal(choice, n int) c13V {
	switch {
	case choice < 0:
		return c13NilV{}
	case choice >= n:
		return c13Bytes{ID: c13UnknownID}
	}
	return c13Bytes{ID: choice}
}

func c13IDName(choice, n int) string {
	switch {
	case choice < 0:
		return "unset"
	case choice >= n:
		return "unknown"
	}
	return fmt.Sprintf("#%d", choice)
}

func c13Seq(s c13V) ([]int, bool) {
	switch x := s.(type) {
	case c13NilV:
		return nil, true
	case c13Slice:
		var out []int
		for i := x.Lo; i < x.Hi; i++ {
			e, ok := (*x.Back)[i].(c13Entry)
			if !ok {
				return nil, false
			}
			out = append(out, e.Idx)
		}
		return out, true
	}
	return nil, false
}

func c13SeqEq(a []int, lo, hi int, reversed bool) bool {
	if hi < lo {
		return len(a) == 0
	}
	if len(a) != hi-lo+1 {
		return false
	}
	for i := range a {
		want := lo + i
		if reversed {
			want = hi - i
		}
		if a[i] != want {
			return false
		}
	}
	return true
}

type c13Class struct {
	Name      string
	Scenarios int
	Bad       int
	First     string
}

func c13D4(c *Ctx, st *c13Store, invalidRange int64, haveCode bool) {
	classes := []*c13Class{{Name: "unknown-since"}, {Name: "unknown-until"}, {Name: "since-after-until"}, {Name: "range"}}
	pos := st.LE.Pos()
	undecidedAll := func(names []string, format string, a ...any) {
		for _, n := range names {
			c.undecided("D4", st.Name+"+"+n, pos, format, a...)
		}
	}
	selNames := []string{"select[unknown-since]", "select[unknown-until]", "select[since-after-until]", "select[range]"}
	itNames := []string{"order[forward]", "order[reverse]"}
	// ---- selector
	switch {
	case st.Selector == nil:
		undecidedAll(selNames, "range selector call not found")
	case !haveCode:
		undecidedAll(selNames, "errcode.ErrCode_ErrInvalidRange not found")
	default:
		pos = posOf(st.Selector)
		selF := staticCallee(st.Selector.Common())
		specs, why := st.argSpecs(st.Selector)
		if specs == nil {
			undecidedAll(selNames, "%s", why)
			break
		}
		unsupported := ""
		for n := 0; n <= c13MaxLog && unsupported == ""; n++ {
			for sc := -1; sc <= n && unsupported == ""; sc++ {
				for uc := -1; uc <= n; uc++ {
					args := make([]c13V, len(specs))
					for i, sp := range specs {
						switch sp.Kind {
						case "entries":
							args[i] = c13EntryList(n)
						case "since":
							args[i] = c13IDVal(sc, n)
						case "until":
							args[i] = c13IDVal(uc, n)
						case "const":
							args[i] = c13ConstVal(sp.C, sp.Neg)
						default:
							args[i] = c13Opaque{Tag: sp.Kind}
						}
					}
					var cl *c13Class
					wantErr := true
					lo, hi := 0, n-1
					if sc >= 0 {
						lo = sc
					}
					if uc >= 0 {
						hi = uc
					}
					switch {
					case sc == n:
						cl = classes[0]
					case uc == n:
						cl = classes[1]
					case lo > hi && n > 0:
						cl = classes[2]
					default:
						cl, wantErr = classes[3], false
					}
					cl.Scenarios++
					res, _, outcome, ywhy := c13Run(selF, args)
					if outcome == "unsupported" {
						unsupported = ywhy
						break
					}
					desc := fmt.Sprintf("log of %d entries, since=%s, until=%s", n, c13IDName(sc, n), c13IDName(uc, n))
					bad := ""
					switch {
					case outcome == "panic":
						bad = "the selector panics (" + ywhy + ")"
					case wantErr:
						e, isErr := res[1].(c13Err)
						switch {
						case !isErr:
							seq, _ := c13Seq(res[0])
							bad = fmt.Sprintf("no error is returned (entries %v are listed)", seq)
						case !e.Coded || e.Code != invalidRange:
							bad = "the error does not carry ErrInvalidRange"
						}
					default:
						if _, isNil := res[1].(c13NilV); !isNil {
							bad = "an error is returned for a valid range"
						} else if seq, ok := c13Seq(res[0]); !ok || !c13SeqEq(seq, lo, hi, false) {
							bad = fmt.Sprintf("entries %v are selected, expected #%d..#%d inclusive", seq, lo, hi)
						}
					}
					if bad != "" {
						cl.Bad++
						if cl.First == "" {
							cl.First = desc + ": " + bad
						}
					}
				}
			}
		}
		if unsupported != "" {
			undecidedAll(selNames, "the range selector %s is written in a form the evaluator does not model: %s", fnName(selF), unsupported)
			break
		}
		total := 0
		for i, cl := range classes {
			total += cl.Scenarios
			construct := st.Name + "+" + selNames[i]
			if cl.Bad == 0 {
				c.ok("D4", construct, pos, "%d scenarios over logs of 0..%d entries behave as specified (%s, arguments as passed by ListEvents)", cl.Scenarios, c13MaxLog, fnName(selF))
			} else {
				c.fail("D4", construct, pos, "%d of %d scenarios wrong in %s as called by ListEvents; first: %s", cl.Bad, cl.Scenarios, fnName(selF), cl.First)
			}
		}
		c.count("selector_scenarios", total)
	}
	// ---- iterator
	pos = st.LE.Pos()
	if st.Iterator == nil {
		undecidedAll(itNames, "iterator call not found")
		return
	}
	pos = posOf(st.Iterator)
	specs, why := st.argSpecs(st.Iterator)
	if specs == nil {
		undecidedAll(itNames, "%s", why)
		return
	}
	itFns, itName, why := st.iterFuncs()
	if itFns == nil {
		undecidedAll(itNames, "%s", why)
		return
	}
	for di, rev := range []bool{false, true} {
		construct := st.Name + "+" + itNames[di]
		bad, unsupported := "", ""
		for n := 0; n <= c13MaxLog && bad == "" && unsupported == ""; n++ {
			args := make([]c13V, len(specs))
			for i, sp := range specs {
				switch sp.Kind {
				case "entries":
					args[i] = c13EntryList(n)
				case "reverse":
					args[i] = c13Bool(rev != sp.Neg)
				case "const":
					args[i] = c13ConstVal(sp.C, sp.Neg)
				case "callback":
					args[i] = c13Fn{Ext: "visit"}
				default:
					args[i] = c13Opaque{Tag: sp.Kind}
				}
			}
			_, visited, outcome, ywhy := c13RunFn(itFns[rev], args)
			switch {
			case outcome == "unsupported":
				unsupported = ywhy
			case outcome == "panic":
				bad = fmt.Sprintf("range of %d entries, reverse=%v: the iterator panics (%s)", n, rev, ywhy)
			case !c13SeqEq(visited, 0, n-1, rev):
				bad = fmt.Sprintf("range of %d entries, reverse=%v: entries are visited in order %v", n, rev, visited)
			}
		}
		switch {
		case unsupported != "":
			c.undecided("D4", construct, pos, "the iterator (%s) is written in a form the evaluator does not model: %s", itName, unsupported)
		case bad != "":
			c.fail("D4", construct, pos, "%s as called by ListEvents: %s", itName, bad)
		default:
			c.ok("D4", construct, pos, "ranges of 0..%d entries are visited once each, %s, when ListEvents is called with reverse=%v", c13MaxLog, map[bool]string{false: "oldest first", true: "newest first"}[rev], rev)
		}
	}
}

// ---- D5: errors propagate ----------------------------------------------------

func c13D5Store(c *Ctx, st *c13Store) {
	construct := st.Name + "+selector-error"
	if st.Selector == nil {
		c.undecided("D5", construct, st.LE.Pos(), "range selector call not found")
		return
	}
	fn := st.Selector.Parent()
	r := rejectOnFailure(fn, errVerdict(st.Selector))
	ok := r.OK
	why := r.Why
	if ok && fn != st.LE {
		// the selector is called in a helper: the helper's error must reject in ListEvents too
		if call := st.Scope.unique[fn]; call != nil && call.Parent() == st.LE && errResultIndex(fn.Signature) >= 0 {
			r2 := rejectOnFailure(st.LE, errVerdict(call))
			ok, why = r2.OK, "in ListEvents: "+r2.Why
		} else if fn.Parent() == nil {
			c.undecided("D5", construct, posOf(st.Selector), "the selector is called in helper %s whose error cannot be followed to ListEvents", fnName(fn))
			return
		}
	}
	c.check(ok, "D5", construct, posOf(st.Selector), "an invalid range makes ListEvents fail: "+why, "the range selector's error is not enforced ("+why+"): an unknown identifier or an inverted range lists something instead of failing")
}

func c13D5Handler(c *Ctx, h *c13Handler) {
	construct := h.Name + "+ListEvents-error"
	r := rejectOnFailure(h.List.Parent(), errVerdict(h.List))
	c.check(r.OK, "D5", construct, posOf(h.List), "the handler fails when ListEvents fails: "+r.Why, "ListEvents' error is not enforced by the handler ("+r.Why+"): an invalid range is not reported to the client")
}

// ---- handlers ------------------------------------------------------------------

func c13FindHandlers(c *Ctx, stores []*c13Store) []*c13Handler {
	w := c.W
	var out []*c13Handler
	var iface *types.Interface
	if p := w.typesPkg(pkgTypes); p != nil {
		if o := p.Scope().Lookup("ProtocolServiceServer"); o != nil {
			iface, _ = o.Type().Underlying().(*types.Interface)
		}
	}
	rpcs := []struct{ rpc, store string }{{"GroupMetadataList", "MetadataStore"}, {"GroupMessageList", "MessageStore"}}
	for _, r := range rpcs {
		var st *c13Store
		for _, s := range stores {
			if s.LE == w.lookupMethod(pkgRoot, r.store, "ListEvents") {
				st = s
			}
		}
		if iface == nil || st == nil {
			c.undecided("D2", r.rpc, token.NoPos, "protocoltypes.ProtocolServiceServer or %s.ListEvents not found", r.store)
			continue
		}
		var found []*c13Handler
		for _, t := range w.implementersOf(iface) {
			fn := w.methodOf(t, r.rpc)
			if fn == nil || fn.Blocks == nil || !inModule(fn) {
				continue
			}
			sc := c13NewScope(fn, 1)
			calls := sc.calls(func(_ *ssa.Function, _ *ssa.Call, f *ssa.Function) bool { return f == st.LE })
			if len(calls) == 0 {
				continue
			}
			h := &c13Handler{Name: fnName(fn), Fn: fn, Scope: sc, Store: st, ReqIdx: c13ReqParam(fn)}
			if len(calls) == 1 {
				h.List = calls[0]
			}
			found = append(found, h)
		}
		if len(found) != 1 || found[0].List == nil || found[0].ReqIdx < 0 {
			c.undecided("D2", r.rpc, token.NoPos, "expected one implementation of ProtocolServiceServer.%s that calls %s.ListEvents once and takes a request with since/until/reverse fields; found %d", r.rpc, r.store, len(found))
			continue
		}
		for _, f := range found[0].Scope.funcs {
			c.analysed(f)
		}
		out = append(out, found[0])
	}
	return out
}

// ---- D3: parameter rule table ----------------------------------------------------

// c13B2: DESIGN.md Appendix B.2.
func c13B2(sinceID, untilID, sinceNow, untilNow, reverse bool) bool {
	return (sinceID && sinceNow) || (untilID && untilNow) || (sinceNow && untilNow) || (!untilID && !untilNow && reverse)
}

func c13D3(c *Ctx, h *c13Handler) {
	// the check: a module function returning only an error, every argument of which is a
	// request field or a constant (directly, or as the fields of a local struct value such as
	// a method receiver), at least three of them list parameters
	type cand struct {
		call  *ssa.Call
		specs []c13ReqArg
	}
	var cands []cand
	for _, call := range h.Scope.calls(func(fn *ssa.Function, call *ssa.Call, f *ssa.Function) bool {
		return inModule(f) && f.Blocks != nil && f.Signature.Results().Len() == 1 && isErrorType(f.Signature.Results().At(0).Type())
	}) {
		if specs, n, ok := h.reqArgs(call); ok && n >= 3 {
			cands = append(cands, cand{call, specs})
		}
	}
	gconstruct := h.Name + "+parameter-check"
	if len(cands) == 0 {
		c.fail("D3", gconstruct, h.Fn.Pos(), "the handler calls no function that checks the request's since/until/now/reverse parameters before listing (a check written inline in the handler is not seen by this rule)")
		return
	}
	if len(cands) > 1 {
		c.undecided("D3", gconstruct, h.Fn.Pos(), "several parameter checks are called; the rule evaluates exactly one")
		return
	}
	call, specs := cands[0].call, cands[0].specs
	pf := staticCallee(call.Common())
	c.analysed(pf)
	// enforced, and before the listing
	v := errVerdict(call)
	r := rejectOnFailure(call.Parent(), v)
	guards := false
	if v != nil && call.Parent() == h.List.Parent() {
		for _, e := range edgesOfVerdict(v).Accept {
			if edgeDominates(e, h.List.Block()) {
				guards = true
			}
		}
	}
	switch {
	case !r.OK:
		c.fail("D3", gconstruct, posOf(call), "the verdict of %s is not enforced: %s", fnName(pf), r.Why)
	case !guards:
		c.fail("D3", gconstruct, posOf(call), "ListEvents is reachable without %s having accepted the request", fnName(pf))
	default:
		c.ok("D3", gconstruct, posOf(call), "%s accepted the request on every path to the listing; its error is returned", fnName(pf))
	}
	// the table
	nrows := 0
	for _, f := range c13RequestRows() {
		construct := fmt.Sprintf("%s+check[%s]", h.Name, c13RowName(f))
		args := make([]c13V, len(specs))
		for i, ra := range specs {
			args[i] = ra.value(f)
		}
		want := c13B2(f["SinceId"], f["UntilId"], f["SinceNow"], f["UntilNow"], f["ReverseOrder"])
		res, _, outcome, why := c13Run(pf, args)
		nrows++
		switch {
		case outcome == "unsupported":
			c.undecided("D3", construct, posOf(call), "%s is written in a form the evaluator does not model: %s", fnName(pf), why)
		case outcome == "panic":
			c.fail("D3", construct, posOf(call), "%s panics: %s", fnName(pf), why)
		default:
			_, isNil := res[0].(c13NilV)
			got := !isNil
			msg := map[bool]string{true: "rejected", false: "accepted"}
			c.check(got == want, "D3", construct, posOf(call), "request is "+msg[got]+" as the reference table requires", fmt.Sprintf("request is %s by %s as called from the handler, the reference table (DESIGN.md B.2) requires it to be %s", msg[got], fnName(pf), msg[want]))
		}
	}
	c.count("parameter_rows", nrows)
}

// c13ReqArg: an argument made of request fields and constants only: a scalar, or a value of
// a local struct type whose fields are such scalars.
type c13ReqArg struct {
	Leaf   *c13Origin
	Zero   bool // never assigned: the zero value
	Fields []c13ReqArg
	Typ    types.Type
}

func (h *c13Handler) reqArg(v ssa.Value) (c13ReqArg, bool) {
	t := v.Type()
	if stt, isStruct := t.Underlying().(*types.Struct); isStruct {
		ld, ok := v.(*ssa.UnOp)
		if !ok || ld.Op != token.MUL {
			return c13ReqArg{}, false
		}
		al := c13StructAlloc(ld.X)
		if al == nil {
			return c13ReqArg{}, false
		}
		out := c13ReqArg{Typ: t}
		for i := 0; i < stt.NumFields(); i++ {
			fs, n := c13FieldStore(al, i)
			switch {
			case fs != nil:
				if _, nested := fs.Type().Underlying().(*types.Struct); nested {
					return c13ReqArg{}, false
				}
				fa, ok := h.reqArg(fs)
				if !ok {
					return c13ReqArg{}, false
				}
				out.Fields = append(out.Fields, fa)
			case n == 0:
				out.Fields = append(out.Fields, c13ReqArg{Zero: true, Typ: stt.Field(i).Type()})
			default:
				return c13ReqArg{}, false
			}
		}
		return out, true
	}
	o := h.Scope.resolve(v)
	switch {
	case o.Kind == "const":
	case o.Kind == "param" && o.Fn == h.Fn && o.Index == h.ReqIdx && c13IsReqField(o.Path):
	default:
		return c13ReqArg{}, false
	}
	return c13ReqArg{Leaf: &o, Typ: t}, true
}

// fields: the request fields the argument is made of.
func (a c13ReqArg) fields() []string {
	var out []string
	if a.Leaf != nil && a.Leaf.Kind == "param" {
		out = append(out, strings.TrimPrefix(a.Leaf.Path, "."))
	}
	for _, f := range a.Fields {
		out = append(out, f.fields()...)
	}
	return out
}

// value: the argument for a request in which the named fields are set (bytes) / true (bools).
func (a c13ReqArg) value(f map[string]bool) c13V {
	switch {
	case a.Fields != nil:
		sv := c13StructV{}
		for _, x := range a.Fields {
			sv.F = append(sv.F, x.value(f))
		}
		return sv
	case a.Zero || a.Leaf == nil:
		return c13Zero(a.Typ)
	case a.Leaf.Kind == "const":
		return c13ConstVal(a.Leaf.Const, a.Leaf.Neg)
	}
	name := strings.TrimPrefix(a.Leaf.Path, ".")
	if c13IsBytes(a.Typ) {
		if f[name] {
			return c13Bytes{ID: 1}
		}
		return c13NilV{}
	}
	return c13Bool(f[name] != a.Leaf.Neg)
}

// reqArgs: every argument of the call is made of request fields and constants.
func (h *c13Handler) reqArgs(call *ssa.Call) ([]c13ReqArg, int, bool) {
	var out []c13ReqArg
	n := 0
	for _, a := range call.Common().Args {
		ra, ok := h.reqArg(a)
		if !ok {
			return nil, 0, false
		}
		n += len(ra.fields())
		out = append(out, ra)
	}
	return out, n, true
}

func c13RequestRows() []map[string]bool {
	var rows []map[string]bool
	for mask := 0; mask < 32; mask++ {
		rows = append(rows, map[string]bool{"SinceId": mask&1 != 0, "UntilId": mask&2 != 0, "SinceNow": mask&4 != 0, "UntilNow": mask&8 != 0, "ReverseOrder": mask&16 != 0})
	}
	return rows
}

func c13RowName(f map[string]bool) string {
	b := func(v bool) int {
		if v {
			return 1
		}
		return 0
	}
	return fmt.Sprintf("since_id=%d,until_id=%d,since_now=%d,until_now=%d,reverse_order=%d", b(f["SinceId"]), b(f["UntilId"]), b(f["SinceNow"]), b(f["UntilNow"]), b(f["ReverseOrder"]))
}

func c13IsReqField(path string) bool {
	for _, f := range c13ReqFields {
		if path == "."+f {
			return true
		}
	}
	return false
}

// ---- D6: the listing is conditioned on since_now only ------------------------------

func c13D6(c *Ctx, h *c13Handler) {
	construct := h.Name + "+list-condition"
	fn := h.List.Parent()
	if fn != h.Fn {
		c.undecided("D6", construct, posOf(h.List), "ListEvents is called in %s, not in the handler body: its guard conditions are not followed", fnName(fn))
		return
	}
	target := h.List.Block()
	// the conditions the call of ListEvents is subject to, each as a function of the request
	type guard struct {
		want bool
		desc string
		eval func(f map[string]bool) (val bool, unsupported string)
	}
	var guards []guard
	var other []string
	for _, b := range fn.Blocks {
		if len(b.Instrs) == 0 {
			continue
		}
		ifi, ok := b.Instrs[len(b.Instrs)-1].(*ssa.If)
		if !ok || b == target {
			continue
		}
		domT := edgeDominates(edge{b, b.Succs[0]}, target)
		domF := edgeDominates(edge{b, b.Succs[1]}, target)
		if domT == domF {
			continue
		}
		cond := ifi.Cond
		if bo, ok := cond.(*ssa.BinOp); ok && (bo.Op == token.EQL || bo.Op == token.NEQ) && (isNilConst(bo.X) || isNilConst(bo.Y)) {
			inner := bo.X
			if isNilConst(bo.X) {
				inner = bo.Y
			}
			ra, ok := h.reqArg(inner)
			if !ok || ra.Leaf == nil || ra.Leaf.Kind != "param" {
				if o := h.Scope.resolve(inner); o.Kind != "result" {
					other = append(other, o.String())
				}
				continue // outcome of an earlier call (error test, lookup) or not a request parameter
			}
			name := strings.TrimPrefix(ra.Leaf.Path, ".")
			eql := bo.Op == token.EQL
			guards = append(guards, guard{want: domT, desc: name, eval: func(f map[string]bool) (bool, string) { return !f[name] == eql, "" }})
			continue
		}
		o := h.Scope.resolve(cond)
		switch {
		case o.Kind == "param" && o.Fn == h.Fn && o.Index == h.ReqIdx && c13IsReqField(o.Path):
			name, neg := strings.TrimPrefix(o.Path, "."), o.Neg
			guards = append(guards, guard{want: domT, desc: name, eval: func(f map[string]bool) (bool, string) { return f[name] != neg, "" }})
		case o.Kind == "result":
			// a predicate over the request (a module function all of whose arguments are made of
			// request fields) is evaluated; the outcome of any other call is not a request parameter
			pf := staticCallee(o.Call.Common())
			if pf == nil || pf.Blocks == nil || !inModule(pf) || o.Path != "" {
				continue
			}
			specs, n, ok := h.reqArgs(o.Call)
			if !ok || n == 0 || o.Index >= pf.Signature.Results().Len() || !isBoolType(pf.Signature.Results().At(o.Index).Type()) {
				continue
			}
			c.analysed(pf)
			idx, neg := o.Index, o.Neg
			guards = append(guards, guard{want: domT, desc: fnName(pf), eval: func(f map[string]bool) (bool, string) {
				args := make([]c13V, len(specs))
				for i, ra := range specs {
					args[i] = ra.value(f)
				}
				res, _, outcome, why := c13Run(pf, args)
				if outcome != "return" {
					return false, fmt.Sprintf("%s %s: %s", fnName(pf), map[bool]string{true: "panics", false: "is written in a form the evaluator does not model"}[outcome == "panic"], why)
				}
				bv, isB := res[idx].(c13Bool)
				if !isB {
					return false, fnName(pf) + " does not evaluate to a boolean"
				}
				return bool(bv) != neg, ""
			}})
		default:
			other = append(other, o.String())
		}
	}
	if len(other) > 0 {
		c.note("%s: the call of ListEvents also depends on %s (not a request parameter, not judged)", h.Name, strings.Join(other, ", "))
	}
	// for every request the parameter table accepts: previous events are listed iff since_now is unset
	var bad []string
	nbad := 0
	for _, f := range c13RequestRows() {
		if c13B2(f["SinceId"], f["UntilId"], f["SinceNow"], f["UntilNow"], f["ReverseOrder"]) {
			continue
		}
		reached := true
		for _, g := range guards {
			v, unsupported := g.eval(f)
			if unsupported != "" {
				c.undecided("D6", construct, posOf(h.List), "a condition of the listing cannot be evaluated: %s", unsupported)
				return
			}
			if v != g.want {
				reached = false
			}
		}
		if reached != !f["SinceNow"] {
			nbad++
			if len(bad) < 2 {
				bad = append(bad, fmt.Sprintf("request [%s]: previous events are %s, they must be %s", c13RowName(f), map[bool]string{true: "listed", false: "not listed"}[reached], map[bool]string{true: "listed", false: "not listed"}[!f["SinceNow"]]))
			}
		}
	}
	var descs []string
	for _, g := range guards {
		descs = append(descs, g.desc)
	}
	c.check(nbad == 0, "D6", construct, posOf(h.List), "previous events are listed exactly when since_now is unset, for every request the parameter table accepts (conditions on: "+strings.Join(descs, ", ")+")",
		fmt.Sprintf("the call of ListEvents (conditions on: %s) is wrong for %d accepted request shapes; %s (since_now set means: only events to come; unset means: replay the past)", strings.Join(descs, ", "), nbad, strings.Join(bad, "; ")))
}

// ---- D7: no replayed event is lost at the end of the replay ---------------------------

// chanOf: the make(chan) a channel operand denotes (parameters of a module function the
// handler calls or starts with go are followed to the arguments at its only call site), nil when it is not a channel made in
// the handler (subscription outputs, Done() channels, the listing's channel).
func (sc *c13Scope) chanOf(v ssa.Value) *ssa.MakeChan {
	if o := sc.resolve(v); o.Kind == "make" && !o.Neg && o.Path == "" {
		return o.Make
	}
	return nil
}

// ctxOf: v is result #idx of a context.With* call (0: the context, 1: its cancel function).
func (sc *c13Scope) ctxOf(v ssa.Value, idx int) *ssa.Call {
	o := sc.resolve(v)
	if o.Kind != "result" || o.Index != idx || o.Path != "" {
		return nil
	}
	if k := calleeKey(o.Call.Common()); !strings.HasPrefix(k, "context.With") || o.Call.Common().Signature().Results().Len() != 2 {
		return nil
	}
	return o.Call
}

// doneOf: v is X.Done() of a context made by a context.With* call; returns that call.
func (sc *c13Scope) doneOf(v ssa.Value) *ssa.Call {
	o := sc.resolve(v)
	if o.Kind != "result" || o.Index != 0 || !o.Call.Common().IsInvoke() || o.Call.Common().Method.Name() != "Done" {
		return nil
	}
	return sc.ctxOf(o.Call.Common().Value, 0)
}

// c13SelectBody: the block executed when state k of sel is chosen.
func c13SelectBody(sel *ssa.Select, k int) *ssa.BasicBlock {
	for _, ex := range extractsOf(sel, 0) {
		if ex.Referrers() == nil {
			continue
		}
		for _, r := range *ex.Referrers() {
			bo, ok := r.(*ssa.BinOp)
			if !ok || bo.Op != token.EQL || bo.Referrers() == nil {
				continue
			}
			n, isC := constInt(bo.Y)
			if !isC || int(n) != k {
				continue
			}
			for _, r2 := range *bo.Referrers() {
				if ifi, ok := r2.(*ssa.If); ok {
					return ifi.Block().Succs[0]
				}
			}
		}
	}
	return nil
}

func c13D7(c *Ctx, h *c13Handler) {
	construct := h.Name + "+replay-handover"
	sc := c13NewScope(h.Fn, 1) // the handler, its closures and the module functions it calls or starts
	// consumers: functions that call Send on the handler's stream parameter
	consumers := map[*ssa.Function]bool{}
	for _, fn := range sc.funcs {
		for _, b := range fn.Blocks {
			for _, in := range b.Instrs {
				call, ok := in.(*ssa.Call)
				if !ok || !call.Common().IsInvoke() || call.Common().Method.Name() != "Send" {
					continue
				}
				if o := sc.resolve(call.Common().Value); o.Kind == "param" && o.Fn == h.Fn && o.Path == "" {
					consumers[fn] = true
				}
			}
		}
	}
	if len(consumers) == 0 {
		c.undecided("D7", construct, h.Fn.Pos(), "no function of the handler calls Send on the handler's stream parameter: the send loop cannot be located")
		return
	}
	type recvSite struct {
		fn  *ssa.Function
		sel *ssa.Select // nil: plain receive
	}
	sends := map[*ssa.MakeChan]map[*ssa.Function]bool{}
	recvs := map[*ssa.MakeChan][]recvSite{}
	recvBlocks := map[*ssa.MakeChan]map[*ssa.BasicBlock]bool{}
	directList := false
	note := func(m map[*ssa.MakeChan]map[*ssa.Function]bool, ch *ssa.MakeChan, fn *ssa.Function) {
		if m[ch] == nil {
			m[ch] = map[*ssa.Function]bool{}
		}
		m[ch][fn] = true
	}
	addRecv := func(ch *ssa.MakeChan, fn *ssa.Function, sel *ssa.Select, b *ssa.BasicBlock) {
		recvs[ch] = append(recvs[ch], recvSite{fn, sel})
		if recvBlocks[ch] == nil {
			recvBlocks[ch] = map[*ssa.BasicBlock]bool{}
		}
		recvBlocks[ch][b] = true
	}
	isListing := func(v ssa.Value) bool {
		o := sc.resolve(v)
		return o.Kind == "result" && o.Call == h.List && o.Index == 0
	}
	for _, fn := range sc.funcs {
		for _, b := range fn.Blocks {
			for _, in := range b.Instrs {
				switch x := in.(type) {
				case *ssa.Send:
					if ch := sc.chanOf(x.Chan); ch != nil {
						note(sends, ch, fn)
					}
				case *ssa.UnOp:
					if x.Op != token.ARROW {
						continue
					}
					if ch := sc.chanOf(x.X); ch != nil {
						addRecv(ch, fn, nil, b)
					} else if consumers[fn] && isListing(x.X) {
						directList = true
					}
				case *ssa.Select:
					for _, st := range x.States {
						ch := sc.chanOf(st.Chan)
						switch {
						case ch != nil && st.Dir == types.SendOnly:
							note(sends, ch, fn)
						case ch != nil:
							addRecv(ch, fn, x, b)
						case consumers[fn] && isListing(st.Chan):
							directList = true
						}
					}
				}
			}
		}
	}
	// hand-over channels: received by a consumer, sent by another function
	type handover struct {
		ch        *ssa.MakeChan
		producers []*ssa.Function
	}
	var hos []handover
	for ch, sites := range recvs {
		cons := false
		for _, s := range sites {
			if consumers[s.fn] {
				cons = true
			}
		}
		if !cons {
			continue
		}
		var prods []*ssa.Function
		for fn := range sends[ch] {
			if !consumers[fn] {
				prods = append(prods, fn)
			}
		}
		if len(prods) > 0 {
			sort.Slice(prods, func(i, j int) bool { return prods[i].String() < prods[j].String() })
			hos = append(hos, handover{ch, prods})
		}
	}
	sort.Slice(hos, func(i, j int) bool { return hos[i].ch.Pos() < hos[j].ch.Pos() })
	if len(hos) == 0 {
		if directList {
			c.ok("D7", construct, posOf(h.List), "the send loop reads the listing's channel itself: there is no intermediate hand-over that could drop replayed events")
		} else {
			c.undecided("D7", construct, h.Fn.Pos(), "the channel that carries replayed events to the send loop was not located (neither a channel made in the handler and fed by a goroutine, nor the listing's channel read by the send loop)")
		}
		return
	}
	var bad, undec, okmsg []string
	for _, ho := range hos {
		// contexts the producers cancel
		cancelled := map[*ssa.Call]token.Pos{}
		for _, p := range ho.producers {
			for _, fn := range c13NewScope(p, 0).funcs {
				for _, b := range fn.Blocks {
					for _, in := range b.Instrs {
						ci, ok := in.(ssa.CallInstruction)
						if !ok || ci.Common().IsInvoke() || staticCallee(ci.Common()) != nil {
							continue
						}
						if _, isB := ci.Common().Value.(*ssa.Builtin); isB {
							continue
						}
						if x := sc.ctxOf(ci.Common().Value, 1); x != nil {
							cancelled[x] = posOf(ci)
						}
					}
				}
			}
		}
		// does a consumer answer the Done() of such a context, next to the hand-over channel, by returning?
		outOfBand := ""
		for _, s := range recvs[ho.ch] {
			if !consumers[s.fn] || s.sel == nil {
				continue
			}
			for k, st := range s.sel.States {
				if st.Dir != types.RecvOnly {
					continue
				}
				x := sc.doneOf(st.Chan)
				if x == nil {
					continue
				}
				cpos, isCancelled := cancelled[x]
				if !isCancelled {
					continue
				}
				// the Done branch ends the loop when a return is reachable from it without receiving from the channel again
				body := c13SelectBody(s.sel, k)
				ends := true
				if body != nil {
					ends = false
					seen := map[*ssa.BasicBlock]bool{}
					stack := []*ssa.BasicBlock{body}
					for len(stack) > 0 {
						b := stack[len(stack)-1]
						stack = stack[:len(stack)-1]
						if seen[b] || recvBlocks[ho.ch][b] {
							continue
						}
						seen[b] = true
						if len(b.Instrs) > 0 {
							if _, isRet := b.Instrs[len(b.Instrs)-1].(*ssa.Return); isRet {
								ends = true
							}
						}
						stack = append(stack, b.Succs...)
					}
				}
				if ends {
					outOfBand = fmt.Sprintf("the forwarding goroutine ends the replay by calling the cancel function at %s and the send loop returns on that context's Done() (select at %s)", c.pos(cpos), c.pos(posOf(s.sel)))
				}
			}
		}
		where := c.pos(ho.ch.Pos())
		size, isConst := constInt(ho.ch.Size)
		switch {
		case outOfBand == "":
			okmsg = append(okmsg, fmt.Sprintf("channel made at %s: the end of the replay is not signalled around it (no cancel by its producer that the send loop answers by returning)", where))
		case isConst && size == 0:
			okmsg = append(okmsg, fmt.Sprintf("channel made at %s is a rendez-vous channel: every forwarded event has been taken by the send loop before the forwarder can cancel", where))
		case isConst:
			bad = append(bad, fmt.Sprintf("the channel made at %s buffers %d replayed events while %s: the cancel can overtake queued events, the send loop may pick Done() with the buffer non-empty and the stream then ends normally without its last events (the newest ones, or the oldest with reverse_order)", where, size, outOfBand))
		default:
			undec = append(undec, fmt.Sprintf("the channel made at %s has a capacity the analysis cannot evaluate while %s", where, outOfBand))
		}
	}
	switch {
	case len(bad) > 0:
		c.fail("D7", construct, hos[0].ch.Pos(), "%s", strings.Join(bad, "; "))
	case len(undec) > 0:
		c.undecided("D7", construct, hos[0].ch.Pos(), "%s", strings.Join(undec, "; "))
	default:
		c.ok("D7", construct, hos[0].ch.Pos(), "%s", strings.Join(okmsg, "; "))
	}
}

// ---- D8: only opened events are emitted -------------------------------------------------

// chanOf: the make(chan) a channel value denotes; a channel handed back by a module helper of
// the scope is followed into the helper when all its returns hand back the same channel.
func (st *c13Store) chanOf(v ssa.Value) *ssa.MakeChan {
	for depth := 0; depth < 4; depth++ {
		o := st.Scope.resolve(v)
		if o.Neg || o.Path != "" {
			return nil
		}
		if o.Kind == "make" {
			return o.Make
		}
		if o.Kind != "result" {
			return nil
		}
		f := staticCallee(o.Call.Common())
		if f == nil || f.Blocks == nil || !st.Scope.inSet[f] {
			return nil
		}
		var ret ssa.Value
		for _, r := range returnsOf(f) {
			res := retResults(r)
			if o.Index >= len(res) {
				return nil
			}
			if isNilConst(res[o.Index]) {
				continue
			}
			if ret != nil && ret != res[o.Index] {
				return nil
			}
			ret = res[o.Index]
		}
		if ret == nil {
			return nil
		}
		v = ret
	}
	return nil
}

// c13Dominated: every path to blk takes one of the edges.
func c13Dominated(edges []edge, blk *ssa.BasicBlock) bool {
	for _, e := range edges {
		if edgeDominates(e, blk) {
			return true
		}
	}
	return false
}

func c13D8(c *Ctx, st *c13Store) {
	construct := st.Name + "+emit"
	// the output channel: what ListEvents returns
	outs := map[*ssa.MakeChan]bool{}
	for _, r := range returnsOf(st.LE) {
		for i, v := range retResults(r) {
			if _, isChan := st.LE.Signature.Results().At(i).Type().Underlying().(*types.Chan); isChan && !isNilConst(v) {
				if ch := st.chanOf(v); ch != nil {
					outs[ch] = true
				} else {
					c.undecided("D8", construct, posOf(r), "the channel returned by ListEvents is %s, not a channel made in ListEvents: its senders cannot be enumerated", st.Scope.resolve(v).String())
					return
				}
			}
		}
	}
	if len(outs) == 0 {
		c.undecided("D8", construct, st.LE.Pos(), "ListEvents returns no channel")
		return
	}
	type sendSite struct {
		in  ssa.Instruction
		val ssa.Value
	}
	var sites []sendSite
	for _, fn := range st.Scope.funcs {
		for _, b := range fn.Blocks {
			for _, in := range b.Instrs {
				switch x := in.(type) {
				case *ssa.Send:
					if ch := st.chanOf(x.Chan); ch != nil && outs[ch] {
						sites = append(sites, sendSite{x, x.X})
					}
				case *ssa.Select:
					for _, s := range x.States {
						if s.Dir == types.SendOnly {
							if ch := st.chanOf(s.Chan); ch != nil && outs[ch] {
								sites = append(sites, sendSite{x, s.Send})
							}
						}
					}
				}
			}
		}
	}
	if len(sites) == 0 {
		c.undecided("D8", construct, st.LE.Pos(), "no send on the channel returned by ListEvents was found in ListEvents, its closures and helpers")
		return
	}
	var bad, undec []string
	okCount := 0
	for _, s := range sites {
		blk := s.in.Block()
		where := c.pos(posOf(s.in))
		// tested non-nil?
		if c13Dominated(edgesOfVerdict(s.val).Reject, blk) {
			okCount++
			continue
		}
		if al, ok := s.val.(*ssa.Alloc); ok && al.Heap {
			okCount++ // &T{...}: never nil
			continue
		}
		o := st.Scope.resolve(s.val)
		switch {
		case o.Kind == "const" && isNilConst(o.Const):
			bad = append(bad, fmt.Sprintf("a nil event is sent at %s", where))
		case o.Kind != "result":
			undec = append(undec, fmt.Sprintf("the event sent at %s is %s: whether it can be nil is not decided", where, o.String()))
		default:
			call := o.Call
			callee := calleeKey(call.Common())
			if f := staticCallee(call.Common()); f != nil {
				callee = fnName(f)
			} else if callee == "" {
				callee = "the open callback"
			}
			if errResultIndex(call.Common().Signature()) < 0 {
				undec = append(undec, fmt.Sprintf("the event sent at %s is the result of %s, which reports no error, and is not tested for nil", where, callee))
				break
			}
			v := errVerdict(call)
			if v == nil {
				bad = append(bad, fmt.Sprintf("the event sent at %s is the result of %s whose error is discarded: an entry that cannot be opened is emitted as a nil event", where, callee))
				break
			}
			if call.Parent() != blk.Parent() {
				undec = append(undec, fmt.Sprintf("the event sent at %s is opened in another function (%s): dominance by its error test is not followed", where, fnName(call.Parent())))
				break
			}
			if c13Dominated(edgesOfVerdict(v).Accept, blk) {
				okCount++
				break
			}
			bad = append(bad, fmt.Sprintf("the send at %s is reachable with a non-nil error from %s (the event is then nil): the list RPCs read a nil event as the end of the listing and drop every later event of the range", where, callee))
		}
	}
	pos := posOf(sites[0].in)
	switch {
	case len(bad) > 0:
		c.fail("D8", construct, pos, "%s", strings.Join(bad, "; "))
	case len(undec) > 0:
		c.undecided("D8", construct, pos, "%s", strings.Join(undec, "; "))
	default:
		c.ok("D8", construct, pos, "%d send(s) on the listing channel, each on the nil-error side of the call that opened the entry (or of a non-nil test, or of a freshly built event)", okCount)
	}
}
