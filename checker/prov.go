package main

// Provenance: backward data-dependency roots of an SSA value (through locals and calls),
// and forward taint. Flow-insensitive inside one function; optionally follows parameters to
// the arguments of module callers.

import (
	"go/types"
	"sort"
	"strings"

	"golang.org/x/tools/go/ssa"
)

// A Root describes where data comes from.
//
//	param:<name>[.<field>...]   parameter or a field path read from it
//	global:<pkg.Name>
//	const:<value>               (nil/constants)
//	call:<calleeKey>            result of a call that is not looked into (library, interface)
//	alloc                       fresh zero memory
//	recv:<chan>, lookup, etc.   other sources
type RootSet map[string]bool

func (r RootSet) add(s string) { r[s] = true }
func (r RootSet) list() []string {
	out := make([]string, 0, len(r))
	for k := range r {
		out = append(out, k)
	}
	sort.Strings(out)
	return out
}
func (r RootSet) hasPrefix(p string) bool {
	for k := range r {
		if strings.HasPrefix(k, p) {
			return true
		}
	}
	return false
}
func (r RootSet) String() string { return strings.Join(r.list(), ",") }

type provCfg struct {
	W *World
	// ThroughCall: for a call to key, return which argument indices (incl. receiver at 0 for
	// invoke) the result derives from; nil,false = default (all args + "call:key" marker).
	// FollowCallers: resolve parameters of unexported functions through module call sites.
	FollowCallers bool
	// FollowParam restricts FollowCallers to some parameters (nil = all).
	FollowParam func(p *ssa.Parameter) bool
	// InlineResults: look into module callees' return values.
	InlineResults bool
	MaxDepth      int
	// BindFunc: the function a func-typed parameter is known to hold (the function value passed
	// at the call site under analysis); a call of such a parameter is then treated as a call of
	// that function (with InlineResults its results are looked into). nil = no binding.
	BindFunc func(p *ssa.Parameter) *ssa.Function
}

type provState struct {
	cfg   provCfg
	seen  map[ssa.Value]bool
	base  map[ssa.Value]bool
	depth int
	// struct parameters whose field reads were resolved field by field at the call sites
	fieldFollowed map[*ssa.Parameter]bool
}

func (st *provState) markBase(v ssa.Value) {
	if st.base == nil {
		st.base = map[ssa.Value]bool{}
	}
	if !st.seen[v] {
		st.base[v] = true
	}
}

// rootsOf computes the roots of v.
func rootsOf(cfg provCfg, v ssa.Value) RootSet {
	if cfg.MaxDepth == 0 {
		cfg.MaxDepth = 5
	}
	rs := RootSet{}
	st := &provState{cfg: cfg, seen: map[ssa.Value]bool{}}
	st.visit(v, rs, 0)
	return rs
}

// spilledParam: al is the local copy that go/ssa makes of a by-value struct parameter whose
// fields are read (`t0 = local T (p); *t0 = p; &t0.f`): written once, with the parameter, and
// otherwise only read (whole, or field by field). It then stands for the parameter.
func spilledParam(al *ssa.Alloc) *ssa.Parameter {
	if al == nil || al.Referrers() == nil {
		return nil
	}
	if _, isStruct := al.Type().Underlying().(*types.Pointer).Elem().Underlying().(*types.Struct); !isStruct {
		return nil
	}
	var par *ssa.Parameter
	var onlyRead func(addr ssa.Value, d int) bool
	onlyRead = func(addr ssa.Value, d int) bool {
		if addr.Referrers() == nil || d > 3 {
			return d <= 3
		}
		for _, r := range *addr.Referrers() {
			switch u := r.(type) {
			case *ssa.UnOp, *ssa.DebugRef:
			case *ssa.FieldAddr:
				if u.X != addr || !onlyRead(u, d+1) {
					return false
				}
			case *ssa.Store:
				p, isPar := u.Val.(*ssa.Parameter)
				if u.Addr != addr || addr != ssa.Value(al) || !isPar || par != nil {
					return false
				}
				par = p
			default:
				return false
			}
		}
		return true
	}
	if !onlyRead(al, 0) {
		return nil
	}
	return par
}

// structFieldStored: v is a struct value built locally - the load of a composite literal /
// local struct variable whose field is written exactly once and which is otherwise only read:
// returns the value stored in that field.
func structFieldStored(v ssa.Value, field int) ssa.Value {
	ld, ok := v.(*ssa.UnOp)
	if !ok || ld.Op.String() != "*" {
		return nil
	}
	al, ok := ld.X.(*ssa.Alloc)
	if !ok || al.Referrers() == nil {
		return nil
	}
	var val ssa.Value
	for _, r := range *al.Referrers() {
		switch u := r.(type) {
		case *ssa.UnOp, *ssa.DebugRef:
		case *ssa.FieldAddr:
			if u.X != ssa.Value(al) || u.Referrers() == nil {
				return nil
			}
			for _, r2 := range *u.Referrers() {
				switch s := r2.(type) {
				case *ssa.Store:
					if s.Addr != ssa.Value(u) {
						return nil
					}
					if u.Field == field {
						if val != nil {
							return nil
						}
						val = s.Val
					}
				case *ssa.UnOp, *ssa.DebugRef:
				default:
					return nil
				}
			}
		default:
			return nil // whole-struct store, address passed on
		}
	}
	return val
}

// accessPath returns "name.f.g" when v is a chain of field reads from a parameter/freevar.
func accessPath(v ssa.Value) (string, bool) {
	switch x := v.(type) {
	case *ssa.Parameter:
		return x.Name(), true
	case *ssa.Alloc:
		if p := spilledParam(x); p != nil {
			return p.Name(), true
		}
	case *ssa.FreeVar:
		return x.Name(), true
	case *ssa.UnOp:
		if x.Op.String() == "*" {
			return accessPath(x.X)
		}
	case *ssa.FieldAddr:
		if p, ok := accessPath(x.X); ok {
			st := x.X.Type().Underlying().(*types.Pointer).Elem().Underlying().(*types.Struct)
			return p + "." + st.Field(x.Field).Name(), true
		}
	case *ssa.Field:
		if p, ok := accessPath(x.X); ok {
			st := x.X.Type().Underlying().(*types.Struct)
			return p + "." + st.Field(x.Field).Name(), true
		}
	case *ssa.Call:
		// generated getters: x.GetField() == x.Field
		if f := staticCallee(x.Common()); f != nil && strings.HasPrefix(f.Name(), "Get") && len(x.Common().Args) == 1 && f.Signature.Recv() != nil {
			if p, ok := accessPath(x.Common().Args[0]); ok {
				return p + "." + strings.TrimPrefix(f.Name(), "Get"), true
			}
		}
	case *ssa.ChangeType:
		return accessPath(x.X)
	case *ssa.Convert:
		return accessPath(x.X)
	case *ssa.MakeInterface:
		return accessPath(x.X)
	case *ssa.ChangeInterface:
		return accessPath(x.X)
	case *ssa.TypeAssert:
		return accessPath(x.X)
	case *ssa.Extract:
		if ta, ok := x.Tuple.(*ssa.TypeAssert); ok && x.Index == 0 {
			return accessPath(ta.X)
		}
	}
	return "", false
}

func (st *provState) visit(v ssa.Value, rs RootSet, depth int) {
	if v == nil || st.seen[v] {
		return
	}
	st.seen[v] = true
	if p, ok := accessPath(v); ok {
		// the base of a field read is recorded as "base:", the value actually read as "param:";
		// a parameter that is resolved through its callers is an intermediate ("followed:")
		par, isParam := v.(*ssa.Parameter)
		canFollow := func(p *ssa.Parameter) bool {
			return st.cfg.FollowCallers && depth < st.cfg.MaxDepth && (st.cfg.FollowParam == nil || st.cfg.FollowParam(p)) && len(st.cfg.W.callGraph().callers[p.Parent()]) > 0
		}
		willFollow := isParam && canFollow(par)
		// a field read from a by-value struct parameter: resolved field by field at the call sites
		var fieldPar *ssa.Parameter
		fieldIdx := -1
		if ld, isLd := v.(*ssa.UnOp); isLd && !st.base[v] {
			if fa, isFA := ld.X.(*ssa.FieldAddr); isFA {
				if al, isAl := fa.X.(*ssa.Alloc); isAl {
					if sp := spilledParam(al); sp != nil && canFollow(sp) {
						fieldPar, fieldIdx, willFollow = sp, fa.Field, true
					}
				}
			}
		}
		switch {
		case st.base[v]:
			rs.add("base:" + p)
		case willFollow:
			rs.add("followed:" + p)
		default:
			rs.add("param:" + p)
		}
		switch x := v.(type) {
		case *ssa.FieldAddr:
			st.markBase(x.X)
		case *ssa.Field:
			st.markBase(x.X)
		case *ssa.UnOp:
			if fa, ok := x.X.(*ssa.FieldAddr); ok {
				st.markBase(fa)
				st.markBase(fa.X)
			}
			// a base read from a variable cell (a parameter captured by a closure is spilled to
			// one): the cell, and what is stored into it, is that same base
			if st.base[v] {
				switch x.X.(type) {
				case *ssa.FreeVar, *ssa.Alloc:
					st.markBase(x.X)
				}
			}
		case *ssa.Call:
			if len(x.Common().Args) == 1 {
				st.markBase(x.Common().Args[0])
			}
		}
		if fieldPar != nil {
			if st.fieldFollowed == nil {
				st.fieldFollowed = map[*ssa.Parameter]bool{}
			}
			st.fieldFollowed[fieldPar] = true
			st.followCallersField(fieldPar, fieldIdx, rs, depth)
		}
		// parameters of unexported functions: follow callers (a struct parameter that is only the
		// base of field reads already followed field by field is not followed as a whole)
		if par, isPar := v.(*ssa.Parameter); isPar && st.cfg.FollowCallers && depth < st.cfg.MaxDepth && (st.cfg.FollowParam == nil || st.cfg.FollowParam(par)) && !(st.base[v] && st.fieldFollowed[par]) {
			st.followCallers(par, rs, depth)
		}
		if _, isPar := v.(*ssa.Parameter); isPar {
			return
		}
		if _, isFV := v.(*ssa.FreeVar); isFV {
			st.followFreeVar(v.(*ssa.FreeVar), rs, depth)
			return
		}
		// keep walking the base so that writes to locals are seen
	}
	switch x := v.(type) {
	case *ssa.Const:
		if x.Value == nil {
			rs.add("const:nil")
		} else {
			rs.add("const:" + x.Value.String())
		}
	case *ssa.Global:
		rs.add("global:" + x.String())
	case *ssa.Function:
		rs.add("func:" + funcKey(x))
	case *ssa.Builtin:
	case *ssa.Parameter, *ssa.FreeVar:
	case *ssa.Alloc:
		rs.add("alloc")
		st.visitStoresTo(x, rs, depth)
	case *ssa.Phi:
		for _, e := range x.Edges {
			st.visit(e, rs, depth)
		}
	case *ssa.UnOp:
		st.visit(x.X, rs, depth)
	case *ssa.BinOp:
		st.visit(x.X, rs, depth)
		st.visit(x.Y, rs, depth)
	case *ssa.FieldAddr:
		st.visit(x.X, rs, depth)
		st.visitStoresTo(x, rs, depth)
	case *ssa.IndexAddr:
		st.visit(x.X, rs, depth)
		st.visitStoresTo(x, rs, depth)
	case *ssa.Field:
		st.visit(x.X, rs, depth)
	case *ssa.Index:
		st.visit(x.X, rs, depth)
	case *ssa.Lookup:
		st.visit(x.X, rs, depth)
		st.visit(x.Index, rs, depth)
	case *ssa.Slice:
		st.visit(x.X, rs, depth)
	case *ssa.Extract:
		st.visitCallResult(x.Tuple, x.Index, rs, depth)
	case *ssa.Call:
		st.visitCallResult(x, 0, rs, depth)
	case *ssa.MakeInterface:
		st.visit(x.X, rs, depth)
	case *ssa.ChangeInterface:
		st.visit(x.X, rs, depth)
	case *ssa.ChangeType:
		st.visit(x.X, rs, depth)
	case *ssa.Convert:
		st.visit(x.X, rs, depth)
	case *ssa.SliceToArrayPointer:
		st.visit(x.X, rs, depth)
	case *ssa.TypeAssert:
		st.visit(x.X, rs, depth)
	case *ssa.MakeClosure:
		for _, b := range x.Bindings {
			st.visit(b, rs, depth)
		}
	case *ssa.MakeSlice, *ssa.MakeMap, *ssa.MakeChan:
		rs.add("alloc")
		st.visitStoresTo(v, rs, depth)
	case *ssa.Next, *ssa.Range:
		rs.add("iter")
		if r, ok := v.(*ssa.Range); ok {
			st.visit(r.X, rs, depth)
		}
		if n, ok := v.(*ssa.Next); ok {
			st.visit(n.Iter, rs, depth)
		}
	case *ssa.Select:
		rs.add("select")
	default:
		rs.add("other:" + v.Name())
	}
}

// visitStoresTo: memory writes that can define the content read through addr: direct Store
// instructions and calls that receive the address (or a slice of it) as an argument.
func (st *provState) visitStoresTo(addr ssa.Value, rs RootSet, depth int) {
	refs := addr.Referrers()
	if refs == nil {
		return
	}
	for _, r := range *refs {
		switch u := r.(type) {
		case *ssa.Store:
			if u.Addr == addr {
				if st.base[addr] {
					st.markBase(u.Val)
				}
				st.visit(u.Val, rs, depth)
			}
		case *ssa.FieldAddr:
			if u.X == addr {
				st.visitStoresTo(u, rs, depth)
			}
		case *ssa.IndexAddr:
			if u.X == addr {
				st.visitStoresTo(u, rs, depth)
			}
		case *ssa.Slice:
			if u.X == addr {
				st.visitStoresTo(u, rs, depth)
			}
		case ssa.CallInstruction:
			// the callee may write through the pointer: its other arguments flow in
			cc := u.Common()
			key := calleeKey(cc)
			rs.add("writtenby:" + key)
			if cc.IsInvoke() {
				st.visit(cc.Value, rs, depth)
			}
			for _, a := range cc.Args {
				if a != addr {
					st.visit(a, rs, depth)
				}
			}
		case *ssa.MapUpdate:
			if u.Map == addr {
				st.visit(u.Value, rs, depth)
				st.visit(u.Key, rs, depth)
			}
		}
	}
}

func (st *provState) visitCallResult(call ssa.Value, idx int, rs RootSet, depth int) {
	c, ok := call.(*ssa.Call)
	if !ok {
		st.visit(call, rs, depth)
		return
	}
	cc := c.Common()
	key := calleeKey(cc)
	if st.cfg.InlineResults && depth < st.cfg.MaxDepth {
		f := staticCallee(cc)
		if f == nil && st.cfg.BindFunc != nil && !cc.IsInvoke() {
			if p, isPar := cc.Value.(*ssa.Parameter); isPar {
				if f = st.cfg.BindFunc(p); f != nil {
					key = funcKey(f)
				}
			}
		}
		if f != nil && f.Blocks != nil && fnPkg(f) != nil && strings.HasPrefix(fnPkg(f).Path(), modulePath) {
			// map callee result roots back to arguments
			sub := &provState{cfg: st.cfg, seen: map[ssa.Value]bool{}}
			sub.cfg.FollowCallers = false
			inner := RootSet{}
			for _, r := range returnsOf(f) {
				if idx < len(retResults(r)) {
					sub.visit(retResults(r)[idx], inner, depth+1)
				}
			}
			rs.add("via:" + key)
			for k := range inner {
				if strings.HasPrefix(k, "param:") || strings.HasPrefix(k, "base:") {
					isBase := strings.HasPrefix(k, "base:")
					name := strings.TrimPrefix(strings.TrimPrefix(k, "param:"), "base:")
					base := name
					rest := ""
					if i := strings.Index(name, "."); i >= 0 {
						base, rest = name[:i], name[i:]
					}
					for pi, p := range f.Params {
						if p.Name() == base && pi < len(cc.Args) {
							if ap, ok := accessPath(cc.Args[pi]); ok && rest != "" && !isBase {
								rs.add("param:" + ap + rest)
							}
							if rest != "" || isBase {
								st.markBase(cc.Args[pi])
							}
							st.visit(cc.Args[pi], rs, depth)
						}
					}
				} else {
					rs.add(k)
				}
			}
			return
		}
	}
	rs.add("call:" + key)
	if cc.IsInvoke() {
		st.visit(cc.Value, rs, depth)
	}
	for _, a := range cc.Args {
		st.visit(a, rs, depth)
	}
	if !cc.IsInvoke() {
		if mc, ok := cc.Value.(*ssa.MakeClosure); ok {
			st.visit(mc, rs, depth)
		} else if _, isF := cc.Value.(*ssa.Function); !isF {
			st.visit(cc.Value, rs, depth)
		}
	}
}

func (st *provState) followCallers(par *ssa.Parameter, rs RootSet, depth int) {
	fn := par.Parent()
	idx := -1
	for i, p := range fn.Params {
		if p == par {
			idx = i
		}
	}
	if idx < 0 {
		return
	}
	for _, cs := range st.cfg.W.callGraph().callers[fn] {
		cc := cs.Instr.Common()
		args := cc.Args
		if cc.IsInvoke() {
			args = append([]ssa.Value{cc.Value}, args...)
		}
		if idx < len(args) {
			rs.add("viacaller:" + fnName(cs.Caller))
			if st.base[par] {
				st.markBase(args[idx])
			}
			st.visit(args[idx], rs, depth+1)
		}
	}
}

// followCallersField: field #field of the by-value struct parameter par, as passed by the
// module callers: the value stored in that field of the composite literal / local struct
// built at the call site; the same field of the caller's own struct parameter when the struct
// is handed on; the whole argument when neither can be told.
func (st *provState) followCallersField(par *ssa.Parameter, field int, rs RootSet, depth int) {
	fn := par.Parent()
	idx := -1
	for i, p := range fn.Params {
		if p == par {
			idx = i
		}
	}
	if idx < 0 || depth > st.cfg.MaxDepth {
		return
	}
	stt, _ := par.Type().Underlying().(*types.Struct)
	fname := ""
	if stt != nil && field < stt.NumFields() {
		fname = "." + stt.Field(field).Name()
	}
	for _, cs := range st.cfg.W.callGraph().callers[fn] {
		cc := cs.Instr.Common()
		args := cc.Args
		if cc.IsInvoke() {
			args = append([]ssa.Value{cc.Value}, args...)
		}
		if idx >= len(args) {
			continue
		}
		rs.add("viacaller:" + fnName(cs.Caller))
		a := args[idx]
		// handed on: the caller's own parameter (or the local copy of it)
		var up *ssa.Parameter
		switch x := a.(type) {
		case *ssa.Parameter:
			up = x
		case *ssa.UnOp:
			if al, ok := x.X.(*ssa.Alloc); ok && x.Op.String() == "*" {
				up = spilledParam(al)
			}
		}
		if up != nil {
			if st.cfg.FollowCallers && (st.cfg.FollowParam == nil || st.cfg.FollowParam(up)) && len(st.cfg.W.callGraph().callers[up.Parent()]) > 0 {
				rs.add("followed:" + up.Name() + fname)
				st.followCallersField(up, field, rs, depth+1)
			} else {
				rs.add("param:" + up.Name() + fname)
			}
			continue
		}
		if val := structFieldStored(a, field); val != nil {
			st.visit(val, rs, depth+1)
			continue
		}
		st.visit(a, rs, depth+1)
	}
}

func (st *provState) followFreeVar(fv *ssa.FreeVar, rs RootSet, depth int) {
	fn := fv.Parent()
	idx := -1
	for i, f := range fn.FreeVars {
		if f == fv {
			idx = i
		}
	}
	par := fn.Parent()
	if idx < 0 || par == nil {
		return
	}
	for _, b := range par.Blocks {
		for _, in := range b.Instrs {
			if mc, ok := in.(*ssa.MakeClosure); ok && mc.Fn == fn && idx < len(mc.Bindings) {
				if st.base[fv] {
					st.markBase(mc.Bindings[idx]) // the captured variable is only the base of a field read
				}
				st.visit(mc.Bindings[idx], rs, depth)
			}
		}
	}
}

// ---------- forward taint ----------

// taintFrom propagates taint forward from seeds inside fn (flow-insensitive fixpoint).
// A call with a tainted argument taints its results, its receiver and its reference-typed
// arguments (the callee may copy data between them).
func taintFrom(fn *ssa.Function, seeds ...ssa.Value) map[ssa.Value]bool {
	t := map[ssa.Value]bool{}
	for _, s := range seeds {
		t[s] = true
	}
	isRef := func(v ssa.Value) bool {
		switch v.Type().Underlying().(type) {
		case *types.Pointer, *types.Slice, *types.Map, *types.Interface, *types.Chan:
			return true
		}
		return false
	}
	changed := true
	mark := func(v ssa.Value) {
		if v != nil && !t[v] {
			if _, isC := v.(*ssa.Const); isC {
				return
			}
			t[v] = true
			changed = true
		}
	}
	var base func(v ssa.Value) ssa.Value
	base = func(v ssa.Value) ssa.Value {
		switch x := v.(type) {
		case *ssa.FieldAddr:
			return base(x.X)
		case *ssa.IndexAddr:
			return base(x.X)
		case *ssa.Slice:
			return base(x.X)
		}
		return v
	}
	for changed {
		changed = false
		for _, b := range fn.Blocks {
			for _, in := range b.Instrs {
				switch x := in.(type) {
				case *ssa.Store:
					if t[x.Val] {
						mark(x.Addr)
						mark(base(x.Addr))
					}
				case *ssa.MapUpdate:
					if t[x.Value] || t[x.Key] {
						mark(x.Map)
					}
				case ssa.CallInstruction:
					cc := x.Common()
					any := false
					if cc.IsInvoke() && t[cc.Value] {
						any = true
					}
					for _, a := range cc.Args {
						if t[a] {
							any = true
						}
					}
					if mc, ok := cc.Value.(*ssa.MakeClosure); ok {
						for _, bv := range mc.Bindings {
							if t[bv] {
								any = true
							}
						}
					}
					if any {
						if v := x.Value(); v != nil {
							mark(v)
						}
						if cc.IsInvoke() {
							mark(cc.Value)
						}
						for _, a := range cc.Args {
							if isRef(a) {
								mark(a)
								mark(base(a))
							}
						}
					}
				default:
					v, ok := in.(ssa.Value)
					if !ok {
						continue
					}
					var ops [8]*ssa.Value
					for _, op := range in.Operands(ops[:0]) {
						if op != nil && *op != nil && t[*op] {
							mark(v)
							break
						}
					}
				}
			}
		}
	}
	return t
}
