package main

import (
	"fmt"
	"go/token"
	"go/types"
	"sort"
	"strings"

	"golang.org/x/tools/go/ssa"
)

func init() {
	register(&PropertyDef{
		ID:          "C01",
		Title:       "Sealed group messages open to the original payload or are rejected",
		Explanation: "Decides, for all inputs at once, structural necessary conditions of authenticated opening in pkg/secretstore: (D1) every secretbox.Open behind the three open entry points (headers, payload, push envelope) has its ok result tested, the failing side reaches only error returns and no success return bypasses the accepting side; (D2) verify-before-deliver: in the function that opens the payload box, every success return is dominated either by the accepting side of Verify(plaintext, headers.Sig) on the key decoded from headers.DevicePk, or by the 'already decrypted' side of the flag; that flag is only ever stored as constant true at construction and as constant false on the hit side of the by-CID lookup; (D3) sealer/opener binding: nonce and header counter are stored counter+1, the DevicePk header is the public half of the key that signs, the signature is over the clear payload given to secretbox.Seal, and the opener's nonce comes from the opened headers' counter; (D4) group separation: every call of the chain KDF passes info derived from the group public key (never nil/constant); (D5) the message key is stored under the message CID (which switches the signature check off for later opens) only after a call that opened and verified the payload has succeeded, on every call path (call sites include the loops that run a local table of closures in order). Where the function that opens the payload box takes the signature, the counter or the 'newly decrypted' flag as a bare parameter (unexported function, all callers visible), the parameter stands for what every call site passes and the tests of D2/D3 are applied to those arguments. Not decided: that NaCl/Ed25519 reject every altered bit, payload equality for all sizes, emission by the message store.",
		Trusted:     []string{"nacl/secretbox, Ed25519 (libp2p crypto), HKDF", "go/ssa (x/tools v0.29.0)"},
		Assumptions: []string{"headers passed to OpenEnvelopePayload are the ones returned by OpenEnvelopeHeaders (checked at the message-store call site in C08/C14 scope)"},
		Floors:      map[string]int{"D1": 3, "D2": 5, "D3": 5, "D4": 3, "D5": 1},
		Borrows: []Borrow{
			{From: "C14", Rules: []string{"D1", "D2"}, Why: "the push route is a second way to open an envelope: it must verify the device signature on every success return (a forged push is otherwise delivered as the sender's) and must not record a message key under the CID named by the unauthenticated push message (the log route skips the signature for a CID that has a key)"},
			{From: "C09", Rules: []string{"D1"}, Why: "two payloads sealed under one counter share key and nonce; a member opens one and rejects the other genuine one"},
		},
		Run: runC01,
	})
}

// nonceCtor: module function (uint64) -> *[24]byte
func isNonceCtor(f *ssa.Function) bool {
	if f == nil || !inModule(f) || f.Signature.Recv() != nil || f.Signature.Params().Len() != 1 || f.Signature.Results().Len() != 1 {
		return false
	}
	b, ok := f.Signature.Params().At(0).Type().Underlying().(*types.Basic)
	return ok && b.Kind() == types.Uint64 && isNonceArrayPtr(f.Signature.Results().At(0).Type())
}

// nonceFromCounter returns the argument of the nonce constructor when v is such a call.
func nonceFromCounter(v ssa.Value) (ssa.Value, bool) {
	call, ok := stripConv(v).(*ssa.Call)
	if !ok {
		return nil, false
	}
	if f := staticCallee(call.Common()); isNonceCtor(f) {
		return call.Common().Args[0], true
	}
	return nil, false
}

// flagField identifies a bool field of a module struct.
type flagField struct {
	Struct *types.Named
	Index  int
}

func flagLoad(v ssa.Value) (flagField, bool) {
	u, ok := v.(*ssa.UnOp)
	if !ok || u.Op != token.MUL {
		return flagField{}, false
	}
	fa, ok := u.X.(*ssa.FieldAddr)
	if !ok {
		return flagField{}, false
	}
	pt, ok := fa.X.Type().Underlying().(*types.Pointer)
	if !ok {
		return flagField{}, false
	}
	n, ok := pt.Elem().(*types.Named)
	if !ok || !isBoolType(u.Type()) {
		return flagField{}, false
	}
	return flagField{n, fa.Field}, true
}

// c01ValueFunc: the function a value belongs to.
func c01ValueFunc(v ssa.Value) *ssa.Function {
	switch x := v.(type) {
	case *ssa.Parameter:
		return x.Parent()
	case *ssa.FreeVar:
		return x.Parent()
	case ssa.Instruction:
		return x.Parent()
	}
	return nil
}

// c01UsedAsValue: the named functions of the secret store package that are used as function
// values somewhere (not only called): their callers are not all visible as call sites.
func c01UsedAsValue(w *World) map[*ssa.Function]bool {
	if m, ok := w.memo["c01usedasvalue"].(map[*ssa.Function]bool); ok {
		return m
	}
	m := map[*ssa.Function]bool{}
	for _, fn := range w.ModFuncs {
		if p := fnPkg(fn); p == nil || p.Path() != pkgSecret {
			continue
		}
		for _, b := range fn.Blocks {
			for _, in := range b.Instrs {
				var ops [12]*ssa.Value
				for _, op := range in.Operands(ops[:0]) {
					f, isF := (*op).(*ssa.Function)
					if !isF {
						continue
					}
					if ci, isCall := in.(ssa.CallInstruction); isCall && !ci.Common().IsInvoke() && ci.Common().Value == ssa.Value(f) {
						isArg := false
						for _, a := range ci.Common().Args {
							if a == ssa.Value(f) {
								isArg = true
							}
						}
						if !isArg {
							continue
						}
					}
					m[f] = true
				}
			}
		}
	}
	w.memo["c01usedasvalue"] = m
	return m
}

// c01CallSiteValues: a value that is a bare parameter of an unexported function of the secret
// store package stands for whatever its callers pass: it is resolved to the arguments at all
// module call sites of the function (and on through their bare parameters, at most three
// levels up). Any other value - and a parameter whose callers are not all visible (exported or
// interface method, no call site, function used as a value) - is returned as it is.
func c01CallSiteValues(w *World, v ssa.Value, depth int) []ssa.Value {
	par, ok := stripConv(v).(*ssa.Parameter)
	if !ok || depth > 3 {
		return []ssa.Value{v}
	}
	fn := par.Parent()
	if p := fnPkg(fn); p == nil || p.Path() != pkgSecret || fn.Parent() != nil {
		return []ssa.Value{v}
	}
	if o := fn.Object(); o == nil || o.Exported() || c01UsedAsValue(w)[fn] {
		return []ssa.Value{v}
	}
	idx := -1
	for i, p := range fn.Params {
		if p == par {
			idx = i
		}
	}
	callers := w.callGraph().callers[fn]
	if idx < 0 || len(callers) == 0 {
		return []ssa.Value{v}
	}
	var out []ssa.Value
	for _, cs := range callers {
		cc := cs.Instr.Common()
		if _, isCall := cs.Instr.(*ssa.Call); !isCall || cc.IsInvoke() || idx >= len(cc.Args) {
			return []ssa.Value{v} // go/defer/interface dispatch: not a plain call of this function
		}
		out = append(out, c01CallSiteValues(w, cc.Args[idx], depth+1)...)
	}
	return out
}

// c01FlagOf: cond (the operand of a branch) is a load of a bool field of a module struct, or a
// bare bool parameter for which every call site passes a load of one and the same such field.
func c01FlagOf(w *World, cond ssa.Value) (flagField, bool) {
	if ff, ok := flagLoad(cond); ok {
		return ff, true
	}
	if _, isPar := cond.(*ssa.Parameter); !isPar || !isBoolType(cond.Type()) {
		return flagField{}, false
	}
	var ff flagField
	for i, v := range c01CallSiteValues(w, cond, 0) {
		f, ok := flagLoad(v)
		if !ok || (i > 0 && f != ff) {
			return flagField{}, false
		}
		ff = f
	}
	return ff, ff.Struct != nil
}

// flagEdges: for If instructions of fn testing a load of a bool struct field (or a parameter
// that carries one, see c01FlagOf), the edges taken when the flag is false.
func flagFalseEdges(w *World, fn *ssa.Function) (map[flagField][]edge, []flagField) {
	out := map[flagField][]edge{}
	var order []flagField
	for _, b := range fn.Blocks {
		if len(b.Instrs) == 0 {
			continue
		}
		ifi, ok := b.Instrs[len(b.Instrs)-1].(*ssa.If)
		if !ok {
			continue
		}
		cond := ifi.Cond
		neg := false
		if u, ok := cond.(*ssa.UnOp); ok && u.Op == token.NOT {
			cond, neg = u.X, true
		}
		ff, ok := c01FlagOf(w, cond)
		if !ok {
			continue
		}
		if _, seen := out[ff]; !seen {
			order = append(order, ff)
		}
		if neg {
			out[ff] = append(out[ff], edge{b, b.Succs[0]})
		} else {
			out[ff] = append(out[ff], edge{b, b.Succs[1]})
		}
	}
	return out, order
}

func rootsAllowed(rs RootSet, allowed func(string) bool) (string, bool) {
	for _, r := range rs.list() {
		if strings.HasPrefix(r, "via:") || strings.HasPrefix(r, "viacaller:") || strings.HasPrefix(r, "writtenby:") || r == "alloc" {
			continue
		}
		if !allowed(r) {
			return r, false
		}
	}
	return "", true
}

func runC01(c *Ctx) {
	w := c.W
	ei := w.effects()
	openH := secretStoreMethod(w, "OpenEnvelopeHeaders")
	openP := secretStoreMethod(w, "OpenEnvelopePayload")
	openO := secretStoreMethod(w, "OpenOutOfStoreMessage")
	seal := secretStoreMethod(w, "SealEnvelope")
	if openH == nil || openP == nil || openO == nil || seal == nil {
		c.undecided("D1", "SecretStore", token.NoPos, "SecretStore open/seal entry points not found")
		return
	}
	scope := w.reachableFuncs([]*ssa.Function{openH, openP, openO}, 6)

	// ---- D1 open failure rejects
	var payloadFns []*ssa.Function
	payloadOpen := map[*ssa.Function]ssa.CallInstruction{}
	for _, fn := range sortedFuncs(scope) {
		if fnPkg(fn).Path() != pkgSecret {
			continue
		}
		for _, ci := range callsIn(fn, keyIs(keySBOpen)) {
			c.analysed(fn)
			role := "group-secret box"
			if len(ci.Common().Args) == 4 {
				if _, ok := nonceFromCounter(ci.Common().Args[2]); ok {
					role = "payload box"
					payloadFns = append(payloadFns, fn)
					payloadOpen[fn] = ci
				}
			}
			okv := boolVerdict(ci)
			r := rejectOnFailure(fn, okv)
			var by []*ssa.Return
			if okv != nil {
				by = bypassReturns(fn, edgesOfVerdict(okv).Accept, nil)
			}
			c.check(okv != nil && r.OK && len(by) == 0, "D1", fnName(fn)+"+secretbox.Open("+role+")", posOf(ci),
				"box failure rejects and no success return bypasses the accepting side", "secretbox.Open verdict not enforced: "+r.Why+"; bypassing returns: "+describeReturns(c, by))
		}
	}
	if len(payloadFns) == 0 {
		c.undecided("D2", "payload open", openP.Pos(), "no secretbox.Open with a counter-derived nonce found behind the open entry points")
		return
	}

	// ---- D2 verify before deliver
	var flags []flagField
	for _, fn := range payloadFns {
		open := payloadOpen[fn]
		plaintext := resultValue(open, 0)
		var accept []edge
		nVerify := 0
		for _, site := range verifySitesIn(fn, 2) {
			v := site.Call
			if plaintext == nil || stripConv(site.Data) != plaintext {
				c.fail("D2", fnName(fn)+"+Verify.data", posOf(v), "Verify is not over the plaintext just opened")
				continue
			}
			// signature from the headers
			// (a bare parameter stands for what every caller passes for it)
			sigOK := true
			for _, sv := range c01CallSiteValues(w, site.Sig, 0) {
				if ap, ok := accessPath(sv); !ok || !strings.HasSuffix(ap, ".Sig") {
					sigOK = false
				}
			}
			c.check(sigOK, "D2", fnName(fn)+"+Verify.sig", posOf(v), "signature taken from the opened headers", "the signature verified is not the headers' Sig field")
			// key decoded from headers.DevicePk (through callers)
			krs := rootsOf(provCfg{W: w, FollowCallers: true, InlineResults: true, FollowParam: func(p *ssa.Parameter) bool {
				// follow only inside the package, up to the exported entry points
				f := p.Parent()
				return fnPkg(f).Path() == pkgSecret && (f.Object() == nil || !f.Object().Exported())
			}}, site.Key)
			badRoot, okKey := rootsAllowed(krs, func(r string) bool {
				if strings.HasPrefix(r, "base:") || r == "const:nil" || r == "call:"+keyUnmEd {
					return true
				}
				if strings.HasPrefix(r, "param:") {
					// the key parameter itself (handed down by callers) or a DevicePk field
					return strings.HasSuffix(r, ".DevicePk")
				}
				return strings.HasPrefix(r, "followed:")
			})
			okKey = okKey && krs["call:"+keyUnmEd] && krs.hasSuffixRoot(".DevicePk")
			c.check(okKey, "D2", fnName(fn)+"+Verify.key", posOf(v), "verifying key is decoded from the headers' DevicePk", fmt.Sprintf("verifying key does not (only) come from the opened headers' DevicePk (root %q; roots %v)", badRoot, krs.list()))
			if len(site.Verdicts) == 0 || (site.Via == nil && boolVerdict(v) == nil) {
				c.fail("D2", fnName(fn)+"+Verify.ok", posOf(v), "Verify result discarded")
				continue
			}
			for _, vv := range site.Verdicts {
				if r := rejectOnFailure(fn, vv); !r.OK {
					c.fail("D2", fnName(fn)+"+Verify.reject", posOf(v), "Verify verdict: %s", r.Why)
				}
			}
			if site.Via == nil && errVerdict(v) == nil {
				c.fail("D2", fnName(fn)+"+Verify.reject", posOf(v), "Verify verdict: %s", "verdict result is discarded (never extracted)")
			}
			nVerify++
			accept = append(accept, edgesOfVerdict(site.Verdicts[0]).Accept...)
		}
		fe, order := flagFalseEdges(w, fn)
		for _, ff := range order {
			accept = append(accept, fe[ff]...)
			flags = append(flags, ff)
		}
		by := bypassReturns(fn, accept, nil)
		c.check(nVerify > 0 && len(by) == 0, "D2", fnName(fn)+"+verify-before-deliver", fn.Pos(),
			"every success return passes an accepted Verify or the already-decrypted side", "a decrypted payload can be returned without signature verification (returns at "+describeReturns(c, by)+")")
	}
	// the flag: stores are constant; false only after a successful by-CID lookup; true at construction
	getByCID := eff("Get", nsByCID)
	seenFlag := map[flagField]bool{}
	for _, ff := range flags {
		if seenFlag[ff] {
			continue
		}
		seenFlag[ff] = true
		nStores := 0
		for _, fn := range w.ModFuncs {
			for _, b := range fn.Blocks {
				for _, in := range b.Instrs {
					switch x := in.(type) {
					case *ssa.Store:
						fa, ok := x.Addr.(*ssa.FieldAddr)
						if !ok || fa.Field != ff.Index {
							continue
						}
						pt, ok := fa.X.Type().Underlying().(*types.Pointer)
						if !ok || !types.Identical(pt.Elem(), ff.Struct) {
							continue
						}
						nStores++
						c.analysed(fn)
						val, isC := constBool(x.Val)
						construct := fnName(fn) + "+flag-store"
						switch {
						case !isC:
							c.fail("D2", construct, x.Pos(), "the already-decrypted flag is assigned a computed value: verification can be switched off by data")
						case val:
							c.ok("D2", construct+"(true)", x.Pos(), "flag set to 'newly decrypted'")
						default:
							dom := false
							for _, s := range ei.sitesWith(fn, getByCID) {
								if v := errVerdict(s.Instr); v != nil {
									for _, e := range edgesOfVerdict(v).Accept {
										if edgeDominates(e, x.Block()) {
											dom = true
										}
									}
								}
							}
							c.check(dom, "D2", construct+"(false)", x.Pos(), "flag cleared only after the key was found by CID", "the flag is set to 'already decrypted' (signature check skipped) without a successful by-CID key lookup")
						}
					case *ssa.Alloc:
						pt := x.Type().(*types.Pointer)
						if !types.Identical(pt.Elem(), ff.Struct) {
							continue
						}
						// construction must set the flag to true in the same block
						set := false
						for _, in2 := range b.Instrs {
							if st, ok := in2.(*ssa.Store); ok {
								if fa, ok := st.Addr.(*ssa.FieldAddr); ok && fa.X == ssa.Value(x) && fa.Field == ff.Index {
									if v, isC := constBool(st.Val); isC && v {
										set = true
									}
								}
							}
						}
						c.check(set, "D2", fnName(fn)+"+flag-init", x.Pos(), "a fresh decryption context starts as 'newly decrypted'", "a decryption context is created with the flag at its zero value (already decrypted): the signature check is skipped")
					}
				}
			}
		}
		if nStores == 0 {
			c.undecided("D2", "flag-store", token.NoPos, "no store to the already-decrypted flag found")
		}
	}

	// ---- D5 the key is remembered by CID only after the payload was opened and verified.
	// (The by-CID key switches the signature check off on the next open: if it could be stored
	// for an envelope that was then rejected, a retry of the same log entry would deliver it.)
	checkKeyByCIDOnlyAfterVerify(c, "D5", payloadFns)

	// ---- D3 binding agreement
	checkCounterIncrements(c, "D3", seal)
	sealScope := w.reachableFuncs([]*ssa.Function{seal}, 6)
	nHdr, nSign := 0, 0
	for _, fn := range sortedFuncs(sealScope) {
		if fnPkg(fn).Path() != pkgSecret {
			continue
		}
		// (b) DevicePk header is the public half of the signing key
		var devVal, sigVal ssa.Value
		for _, b := range fn.Blocks {
			for _, in := range b.Instrs {
				st, ok := in.(*ssa.Store)
				if !ok {
					continue
				}
				fa, ok := st.Addr.(*ssa.FieldAddr)
				if !ok {
					continue
				}
				pt, ok := fa.X.Type().Underlying().(*types.Pointer)
				if !ok || !isNamed(pt.Elem(), pkgTypes, "MessageHeaders") {
					continue
				}
				switch pt.Elem().Underlying().(*types.Struct).Field(fa.Field).Name() {
				case "DevicePk":
					devVal = st.Val
				case "Sig":
					sigVal = st.Val
				}
			}
		}
		if devVal != nil && sigVal != nil {
			nHdr++
			c.analysed(fn)
			cfg := provCfg{W: w, InlineResults: true}
			dr, sr := rootsOf(cfg, devVal), rootsOf(cfg, sigVal)
			dp, sp := paramRoots(dr, fn), paramRoots(sr, fn)
			okBind := len(dp) == 1 && has(sp, dp[0]) && dr.hasPrefix("call:("+"github.com/libp2p/go-libp2p/core/crypto.PrivKey).GetPublic") && (sr["call:"+keySign] || sr.hasPrefix("call:(") && strings.Contains(sr.String(), ").Sign") || strings.Contains(sr.String(), "DeviceSign"))
			c.check(okBind, "D3", fnName(fn)+"+DevicePk=signer", fn.Pos(), "the DevicePk header is the public half of the key that signs", fmt.Sprintf("the DevicePk header (roots %v) is not the public half of the signing key (signature roots %v)", dp, sp))
		}
		// (c) signature over the clear payload given to secretbox.Seal
		for _, sg := range callsIn(fn, keyIs(keySign)) {
			for _, sl := range callsIn(fn, keyIs(keySBSeal)) {
				if len(sl.Common().Args) != 4 {
					continue
				}
				if _, ok := nonceFromCounter(sl.Common().Args[2]); !ok {
					continue
				}
				nSign++
				c.analysed(fn)
				c.check(stripConv(sg.Common().Args[0]) == stripConv(sl.Common().Args[1]), "D3", fnName(fn)+"+signed=sealed", posOf(sg), "the signature covers exactly the clear payload that is sealed", "the signed bytes are not the clear payload given to secretbox.Seal")
			}
		}
	}
	if nHdr == 0 {
		c.undecided("D3", "headers", seal.Pos(), "no function on the seal path fills MessageHeaders.DevicePk and Sig")
	}
	if nSign == 0 {
		c.undecided("D3", "sign+seal", seal.Pos(), "no function on the seal path both signs and seals the payload")
	}
	// (d) opener nonce from the opened headers' counter
	for _, fn := range payloadFns {
		arg, _ := nonceFromCounter(payloadOpen[fn].Common().Args[2])
		// the Counter field of a headers parameter (of the push envelope, which carries the
		// headers in clear), in this function or - for a bare counter parameter - at every caller
		okN := true
		for _, cv := range c01CallSiteValues(w, arg, 0) {
			ap, ok := accessPath(cv)
			okC := false
			if f := c01ValueFunc(cv); ok && f != nil && strings.HasSuffix(ap, ".Counter") {
				base := ap[:strings.Index(ap, ".")]
				for _, p := range f.Params {
					if p.Name() == base && (isNamed(p.Type(), pkgTypes, "MessageHeaders") || isNamed(p.Type(), pkgTypes, "OutOfStoreMessage")) {
						okC = true
					}
				}
			}
			if !okC {
				okN = false
			}
		}
		c.check(okN, "D3", fnName(fn)+"+open-nonce", posOf(payloadOpen[fn]), "payload nonce is the opened headers' counter", "the payload box is opened with a nonce that is not the opened headers' counter")
	}

	// ---- D4 group separation in the KDF
	kdf := kdfFuncs(w)
	var kfs []*ssa.Function
	for f := range kdf {
		kfs = append(kfs, f)
	}
	sort.Slice(kfs, func(i, j int) bool { return kfs[i].String() < kfs[j].String() })
	for _, kf := range kfs {
		// which parameter reaches hkdf.Expand's info argument
		infoParam := -1
		for _, ex := range callsIn(kf, keyIs("golang.org/x/crypto/hkdf.Expand")) {
			if len(ex.Common().Args) == 3 {
				for i, p := range kf.Params {
					if rootsOf(provCfg{W: w}, ex.Common().Args[2])["param:"+p.Name()] {
						infoParam = i
					}
				}
			}
		}
		if infoParam < 0 {
			c.fail("D4", fnName(kf)+"+info", kf.Pos(), "the chain KDF does not pass any of its parameters as HKDF info: keys of different groups are not separated")
			continue
		}
		c.ok("D4", fnName(kf)+"+info", kf.Pos(), "HKDF info is parameter #%d", infoParam)
		for _, cs := range w.callGraph().callers[kf] {
			args := cs.Instr.Common().Args
			if infoParam >= len(args) {
				continue
			}
			c.analysed(cs.Caller)
			// Where does the info come from? Parameters of unexported functions are resolved
			// through their callers (a by-value struct parameter field by field), so that what
			// remains is rooted at the exported entry points: the PublicKey field of a Group, or
			// the parameter of an exported function that carries the group key. Anything else
			// (a device key, header fields, the chain key) does not separate groups.
			rs := rootsOf(provCfg{W: w, InlineResults: true, FollowCallers: true, FollowParam: func(p *ssa.Parameter) bool {
				f := p.Parent()
				return fnPkg(f).Path() == pkgSecret && (f.Object() == nil || !f.Object().Exported())
			}}, args[infoParam])
			nGroup, other := 0, ""
			for _, r := range rs.list() {
				if !strings.HasPrefix(r, "param:") {
					continue
				}
				name := strings.TrimPrefix(r, "param:")
				switch {
				case strings.HasSuffix(name, ".PublicKey"):
					nGroup++
				case !strings.Contains(name, ".") && strings.Contains(strings.ToLower(name), "group"):
					nGroup++
				default:
					other = r
				}
			}
			okInfo := nGroup > 0 && other == "" && !isNilConst(args[infoParam])
			c.check(okInfo, "D4", fnName(cs.Caller)+"->"+kf.Name()+"+info", posOf(cs.Instr), "KDF info derives from the group public key", fmt.Sprintf("the chain KDF is called with info not derived from the group public key (roots %v)", rs.list()))
		}
	}
}

// checkKeyByCIDOnlyAfterVerify: every Put on the by-CID namespace is reached only after a
// call that opened and verified the payload has succeeded, on every module call path.
func checkKeyByCIDOnlyAfterVerify(c *Ctx, rule string, payloadFns []*ssa.Function) {
	w := c.W
	ei := w.effects()
	cg := w.callGraph()
	verified := map[*ssa.Function]bool{}
	for _, f := range payloadFns {
		verified[f] = true
	}
	vc := newVerifierCache(w, checkRole{Name: "verified-open", Match: func(fn *ssa.Function, ci ssa.CallInstruction) []ssa.Value {
		if cal := staticCallee(ci.Common()); cal != nil && verified[cal] {
			if v := errVerdict(ci); v != nil {
				return []ssa.Value{v}
			}
		}
		return nil
	}})
	isVerifiedOpen := func(f *ssa.Function) bool { return f != nil && (verified[f] || vc.info(f).IsVerifier) }
	// afterVerify: instr is dominated by the nil-error side of a call to a verified-open function
	afterVerify := func(in ssa.Instruction) bool {
		fn := in.Parent()
		for _, b := range fn.Blocks {
			for _, x := range b.Instrs {
				call, ok := x.(*ssa.Call)
				if !ok || !isVerifiedOpen(staticCallee(call.Common())) {
					continue
				}
				if v := errVerdict(call); v != nil {
					for _, e := range edgesOfVerdict(v).Accept {
						if edgeDominates(e, in.Block()) {
							return true
						}
					}
				}
			}
		}
		return false
	}
	var walk func(in ssa.Instruction, seen map[*ssa.Function]bool, chain []string) []string
	walk = func(in ssa.Instruction, seen map[*ssa.Function]bool, chain []string) []string {
		fn := in.Parent()
		here := append([]string{fnName(fn)}, chain...)
		if afterVerify(in) {
			return nil
		}
		if seen[fn] {
			return nil
		}
		// call sites: static ones and (added to the call graph by c09Tables before every run) the
		// loops that run fn as an element of a local table of functions
		// (`for _, step := range []func() error{...} { step() }`)
		callers := cg.callers[fn]
		if len(callers) == 0 || (fn.Object() != nil && fn.Object().Exported()) {
			return here
		}
		seen[fn] = true
		defer delete(seen, fn)
		for _, cs := range callers {
			if bad := walk(cs.Instr.(ssa.Instruction), seen, here); bad != nil {
				return bad
			}
		}
		return nil
	}
	n := 0
	for _, fn := range w.ModFuncs {
		if fnPkg(fn).Path() != pkgSecret {
			continue
		}
		for _, s := range ei.sitesIn(fn) {
			if !s.Direct || !s.has(eff("Put", nsByCID)) {
				continue
			}
			n++
			c.analysed(fn)
			bad := walk(s.Instr.(ssa.Instruction), map[*ssa.Function]bool{}, nil)
			c.check(bad == nil, rule, fnName(fn)+"+Put[messageKeyForCIDs]", posOf(s.Instr), "the message key is stored by CID only after the payload was opened and its signature verified",
				"the message key can be stored by CID before the payload is verified (path "+strings.Join(bad, " -> ")+"): a rejected forgery leaves its key behind and a second open of the same entry skips the signature check")
		}
	}
	if n == 0 {
		c.undecided(rule, "Put[messageKeyForCIDs]", token.NoPos, "no Put on the by-CID namespace found")
	}
}

func (r RootSet) hasSuffixRoot(s string) bool {
	for k := range r {
		if strings.HasPrefix(k, "param:") && strings.HasSuffix(k, s) {
			return true
		}
	}
	return false
}
