package main

// A7: datastore / keystore effects labelled by (operation, namespace), effect summaries of
// module functions, ordering and must-perform queries.

import (
	"go/constant"
	"go/types"
	"sort"
	"strings"

	"golang.org/x/tools/go/ssa"
)

type Effect struct {
	Op string // Get Put Delete Has Commit (datastore / batch) ; KsGet KsPut KsHas KsDelete (keystore)
	NS string // namespace constant value, "" when unknown, "batch" for Commit
}

func (e Effect) String() string { return e.Op + "[" + e.NS + "]" }

type effectSite struct {
	Instr   ssa.CallInstruction
	Effects []Effect // effects this instruction may perform (direct, or through the callee)
	Direct  bool
	Callee  *ssa.Function
}

type effectInfo struct {
	w       *World
	nsConst map[string]bool // known namespace / key-name constant values (T3)
	summary map[*ssa.Function]map[Effect]bool
	busy    map[*ssa.Function]bool
}

const (
	pkgDatastore = "github.com/ipfs/go-datastore"
	pkgKeystore  = "github.com/ipfs/go-ipfs-keystore"
)

func (w *World) effects() *effectInfo {
	if ei, ok := w.memo["effects"].(*effectInfo); ok {
		return ei
	}
	ei := &effectInfo{w: w, nsConst: map[string]bool{}, summary: map[*ssa.Function]map[Effect]bool{}, busy: map[*ssa.Function]bool{}}
	// T3: every package-level string constant of the secret store package is a candidate label
	for _, pp := range []string{pkgSecret} {
		if tp := w.typesPkg(pp); tp != nil {
			for _, n := range tp.Scope().Names() {
				if c, ok := tp.Scope().Lookup(n).(*types.Const); ok && c.Val().Kind() == constant.String {
					if s := constant.StringVal(c.Val()); s != "" {
						ei.nsConst[s] = true
					}
				}
			}
		}
	}
	w.memo["effects"] = ei
	return ei
}

// directEffect classifies a call as a datastore/keystore operation.
func (ei *effectInfo) directEffect(ci ssa.CallInstruction) (Effect, bool) {
	cc := ci.Common()
	if !cc.IsInvoke() {
		return Effect{}, false
	}
	rt := cc.Value.Type()
	named, ok := rt.(*types.Named)
	if !ok || named.Obj().Pkg() == nil {
		return Effect{}, false
	}
	pkg := named.Obj().Pkg().Path()
	m := cc.Method.Name()
	switch {
	case pkg == pkgDatastore:
		switch m {
		case "Get", "Put", "Delete", "Has", "GetSize":
			if len(cc.Args) >= 2 {
				return Effect{Op: m, NS: ei.namespaceOf(cc.Args[1])}, true
			}
		case "Commit":
			return Effect{Op: "Commit", NS: "batch"}, true
		}
	case pkg == pkgKeystore:
		switch m {
		case "Get", "Put", "Has", "Delete":
			if len(cc.Args) >= 1 {
				return Effect{Op: "Ks" + m, NS: ei.namespaceOf(cc.Args[0])}, true
			}
		}
	}
	return Effect{}, false
}

// namespaceOf: the T3 constant(s) that flow into the key value.
func (ei *effectInfo) namespaceOf(key ssa.Value) string {
	rs := rootsOf(provCfg{W: ei.w, InlineResults: true, FollowCallers: true, MaxDepth: 4, FollowParam: func(p *ssa.Parameter) bool {
		// only names travel through parameters: strings and datastore keys, never key material
		if b, ok := p.Type().Underlying().(*types.Basic); ok && b.Info()&types.IsString != 0 {
			return true
		}
		return isNamed(p.Type(), pkgDatastore, "Key")
	}}, key)
	var found []string
	for r := range rs {
		if strings.HasPrefix(r, "const:\"") {
			s := strings.TrimSuffix(strings.TrimPrefix(r, "const:\""), "\"")
			if ei.nsConst[s] {
				found = append(found, s)
			}
		}
	}
	sort.Strings(found)
	return strings.Join(found, "|")
}

// summaryOf: the effects fn may perform, transitively through module callees.
func (ei *effectInfo) summaryOf(fn *ssa.Function) map[Effect]bool {
	if s, ok := ei.summary[fn]; ok {
		return s
	}
	if ei.busy[fn] {
		return nil
	}
	ei.busy[fn] = true
	defer delete(ei.busy, fn)
	s := map[Effect]bool{}
	for _, site := range ei.sitesIn(fn) {
		for _, e := range site.Effects {
			s[e] = true
		}
	}
	ei.summary[fn] = s
	return s
}

// sitesIn lists the instructions of fn that perform effects (directly or via callees).
func (ei *effectInfo) sitesIn(fn *ssa.Function) []effectSite {
	var out []effectSite
	cg := ei.w.callGraph()
	byInstr := map[ssa.CallInstruction][]*ssa.Function{}
	for _, e := range cg.callees[fn] {
		byInstr[e.Site] = append(byInstr[e.Site], e.Callee)
	}
	for _, b := range fn.Blocks {
		for _, in := range b.Instrs {
			ci, ok := in.(ssa.CallInstruction)
			if !ok {
				continue
			}
			if e, ok := ei.directEffect(ci); ok {
				out = append(out, effectSite{Instr: ci, Effects: []Effect{e}, Direct: true})
				continue
			}
			var effs []Effect
			var callee *ssa.Function
			for _, cal := range byInstr[ci] {
				if !inModule(cal) {
					continue
				}
				callee = cal
				for e := range ei.summaryOf(cal) {
					effs = append(effs, e)
				}
			}
			if len(effs) > 0 {
				sort.Slice(effs, func(i, j int) bool { return effs[i].String() < effs[j].String() })
				out = append(out, effectSite{Instr: ci, Effects: effs, Callee: callee})
			}
		}
	}
	return out
}

// EffPred selects effects.
type EffPred func(Effect) bool

// eff builds a predicate: operation equals op (or any of "A|B") and the namespace label
// contains ns (labels may be joined "a|b" when several constants reach the key).
func eff(op, ns string) EffPred {
	ops := strings.Split(op, "|")
	return func(e Effect) bool {
		okOp := false
		for _, o := range ops {
			if e.Op == o {
				okOp = true
			}
		}
		if !okOp {
			return false
		}
		for _, part := range strings.Split(e.NS, "|") {
			if part == ns {
				return true
			}
		}
		return false
	}
}

func (s effectSite) has(p EffPred) bool {
	for _, x := range s.Effects {
		if p(x) {
			return true
		}
	}
	return false
}

// ExemptReturn lets a rule accept specific early success returns (e.g. a monotone guard).
type ExemptReturn func(r *ssa.Return) bool

// mustPerform: every success return of fn passes through (the accepting side of) a site
// performing e; sites are direct operations or calls to functions that must perform e.
func (ei *effectInfo) mustPerform(fn *ssa.Function, e EffPred, exempt ExemptReturn, depth int) (bool, []*ssa.Return) {
	if fn == nil || fn.Blocks == nil || depth > 6 {
		return false, nil
	}
	var accept []edge
	var verdicts []ssa.Value
	var plain []ssa.Instruction
	any := false
	for _, site := range ei.sitesIn(fn) {
		if !site.has(e) {
			continue
		}
		if _, isCall := site.Instr.(*ssa.Call); !isCall {
			continue
		}
		if !site.Direct {
			if site.Callee == nil {
				continue
			}
			if depth >= 0 {
				if ok, _ := ei.mustPerform(site.Callee, e, exempt, depth+1); !ok {
					continue
				}
			}
			// depth < 0: "must pass through a site that may perform e" (callees not required to
			// perform it on all their paths, e.g. a store helper that returns early on empty input)
		}
		any = true
		v := errVerdict(site.Instr)
		if v == nil {
			plain = append(plain, site.Instr.(ssa.Instruction))
			continue
		}
		verdicts = append(verdicts, v)
		accept = append(accept, edgesOfVerdict(v).Accept...)
	}
	if !any {
		return false, nil
	}
	var real []*ssa.Return
	for _, r := range bypassReturns(fn, accept, verdicts) {
		covered := exempt != nil && exempt(r)
		for _, p := range plain {
			if instrDominates(p, r) {
				covered = true
			}
		}
		if !covered {
			real = append(real, r)
		}
	}
	return len(real) == 0, real
}

// sitesWith returns the sites of fn that may perform e.
func (ei *effectInfo) sitesWith(fn *ssa.Function, e EffPred) []effectSite {
	var out []effectSite
	for _, s := range ei.sitesIn(fn) {
		if s.has(e) {
			out = append(out, s)
		}
	}
	return out
}

// instrReaches: b can execute after a on some path.
func instrReaches(a, b ssa.Instruction) bool {
	if a.Block() == b.Block() {
		ia, ib := -1, -1
		for i, in := range a.Block().Instrs {
			if in == a {
				ia = i
			}
			if in == b {
				ib = i
			}
		}
		if ia < ib {
			return true
		}
	}
	// through a successor path (covers loops back into the same block)
	seen := map[*ssa.BasicBlock]bool{}
	stack := append([]*ssa.BasicBlock(nil), a.Block().Succs...)
	for len(stack) > 0 {
		x := stack[len(stack)-1]
		stack = stack[:len(stack)-1]
		if seen[x] {
			continue
		}
		seen[x] = true
		if x == b.Block() {
			return true
		}
		stack = append(stack, x.Succs...)
	}
	return false
}

// orderViolations: pairs (s2, s1) of distinct sites in fn such that s2 may perform e2 and a
// site s1 that may perform e1 can execute after it: e1 is then not ordered before e2.
// n1, n2 are the numbers of distinct sites carrying e1 / e2 (a single site carrying both is
// ordered inside its callee and is skipped here).
func (ei *effectInfo) orderViolations(fn *ssa.Function, e1, e2 EffPred) (bad [][2]effectSite, n1, n2 int) {
	s1 := ei.sitesWith(fn, e1)
	s2 := ei.sitesWith(fn, e2)
	n1, n2 = len(s1), len(s2)
	for _, b := range s2 {
		for _, a := range s1 {
			if a.Instr == b.Instr {
				continue
			}
			if instrReaches(b.Instr.(ssa.Instruction), a.Instr.(ssa.Instruction)) {
				bad = append(bad, [2]effectSite{b, a})
			}
		}
	}
	return
}

// pureLookup: the site only reads (direct Get/Has, or a callee whose whole summary is reads).
func (s effectSite) pureLookup() bool {
	for _, e := range s.Effects {
		if e.Op != "Get" && e.Op != "Has" && e.Op != "KsGet" && e.Op != "KsHas" {
			return false
		}
	}
	return len(s.Effects) > 0
}
