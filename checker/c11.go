package main

// C11 — Both sides derive the same keys: contact groups, member keys, imported accounts.
//
// The rules evaluate the module functions behind five SecretStore entry points symbolically
// (c11Eval, analysis A10 of the design extended with finite maps and a keystore model) and
// read the outcomes. No weshnet code runs; library calls are opaque terms over their
// arguments and fork into "failed" / "succeeded".

import (
	"fmt"
	"go/constant"
	"go/token"
	"go/types"
	"os"
	"sort"
	"strconv"
	"strings"
	"time"

	"golang.org/x/tools/go/ssa"
)

const (
	c11Crypto      = "github.com/libp2p/go-libp2p/core/crypto"
	c11Unmarshal   = c11Crypto + ".UnmarshalPrivateKey"
	c11Marshal     = c11Crypto + ".MarshalPrivateKey"
	c11NameAccount = "accountSK"      // T3 keystore names (data-format constants)
	c11NameProof   = "accountProofSK" //
	c11NameDevice  = "deviceSK"       //
	c11NameMemDev  = "memberDeviceSK" //
)

// marshal → matching unmarshal
var c11FormatPairs = map[string]string{c11Marshal: c11Unmarshal}

// key-agreement primitives: index of the secret scalar and of the peer's point among the
// call's arguments (receiver included for invokes)
var c11Agreements = map[string][2]int{
	"(github.com/aead/ecdh.KeyExchange).ComputeSecret": {1, 2},
	"golang.org/x/crypto/curve25519.X25519":            {0, 1},
	"golang.org/x/crypto/curve25519.ScalarMult":        {1, 2},
	"golang.org/x/crypto/nacl/box.Precompute":          {2, 1},
	"(*crypto/ecdh.PrivateKey).ECDH":                   {0, 1},
}

func init() {
	register(&PropertyDef{
		ID:    "C11",
		Title: "Both sides derive the same keys: contact groups, member keys, imported accounts",
		Explanation: "Decides, by symbolic evaluation of the SSA behind SecretStore.{ImportAccountKeys, ExportAccountKeysForBackup, GetGroupForAccount, GetGroupForContact, GetOwnMemberDeviceForGroup} (every path of the module code; a library call is an opaque deterministic term over its arguments that may also fail; calls that read crypto/rand or the clock give a fresh value each time; the keystore is a name->key map whose initial content is unknown; map ranges are taken in every order): " +
			"(D1) on every path of the import, each keystore Put and the success return come after: both blobs parsed, both keys tested to be Ed25519, the two keys compared and found different, and the keystore having answered 'absent' for both account names; a success return implies both names were stored (no dropped keystore error); " +
			"(D2) the contact group's public key and secret are a function of the own account key (the stored key that is the member key of the account group, whose public half other accounts know us by) and the contact's public key, and of nothing else: no device key, randomness, clock or package variable; both flow in; a key-agreement primitive combines them with the own private key as scalar and only the contact's key as point; outside the agreement neither key is used alone. The multi-member member key has stored account keys and the group key as only inputs; " +
			"(D3) the get-or-compute paths agree: with the value the computing path stores substituted for the cache entry, the path that finds the cached key returns the same term as the path that computes it; the name looked up is the name stored under; it has a constant namespace part and depends on every input the value depends on; the namespaces of contact keys, member keys and base keys differ; " +
			"(D4) export returns MarshalPrivateKey of the keys stored as accountSK and accountProofSK, in this order; import stores UnmarshalPrivateKey of its first argument as accountSK and of its second as accountProofSK; " +
			"(D5) for each group type the member key has account-wide inputs only, the device key is a key stored under a device-local name (created from randomness only; named by the group key for multi-member groups), Member()/Device() are the public halves of the keys MemberSign/DeviceSign use; the account group derives from the stored account keys only. " +
			"(D6) every function that stores a freshly generated or an imported key in the keystore after looking it up (get-or-generate, the import's check-then-store; not the get-or-compute of a derived key, where racing first uses store equal values) holds one lock in write mode from a lookup that reaches the store until the store, without releasing it in between (locks held by all callers count), and all of them use the same lock: two concurrent first uses cannot both find the name missing. " +
			"Not decided: commutativity of X25519 (that the two accounts' terms denote equal values), unrelatedness of different pairs beyond 'both keys flow in through the agreement', strength of HKDF/Ed25519, implicit flows through branch conditions, concurrency beyond the lookup/store sections of D6 (lock classes are owner type + field, exact for the single device keystore), atomicity of the two Puts of an import against a crash.",
		Trusted:     []string{"golang.org/x/tools go/packages+go/ssa (v0.29.0), go/types", "libp2p crypto (Un)MarshalPrivateKey/Equals/Type, go-ipfs-keystore Get/Put/Has, aead/ecdh, x/crypto/hkdf behave as documented and are deterministic functions of their arguments unless they read crypto/rand"},
		Assumptions: []string{"only module code is interpreted; one keystore per secret store; a key returned together with a nil error is usable"},
		Floors:      map[string]int{"D1": 6, "D2": 6, "D3": 5, "D4": 3, "D5": 12, "D6": 2},
		Borrows: []Borrow{
			{From: "C10", Rules: []string{"D7"}, Why: "both sides derive the same keys only while each keeps its account and device keys: a read fault reported as 'no such key' makes the key store generate a new account key over the existing one, after which the contact's derivation no longer matches"},
		},
		Run: runC11,
	})
}

// ---------------------------------------------------------------------------
// atoms of a term

type c11AtomSet struct {
	Params  map[string]bool
	KS      map[string]*c11Term // render of name -> name term
	Globals map[string]bool
	Calls   map[string]bool
}

func (a *c11AtomSet) String() string {
	var s []string
	for p := range a.Params {
		s = append(s, "input "+p)
	}
	for _, n := range a.KS {
		s = append(s, "stored key "+c11NameString(n))
	}
	for g := range a.Globals {
		s = append(s, "variable "+g)
	}
	sort.Strings(s)
	return "{" + strings.Join(s, ", ") + "}"
}

// c11AtomsOf collects the inputs a pure term depends on. Sub-terms whose rendering is a key
// of alias are replaced by the stored-key atom they stand for (a base key generated and
// stored earlier on the same path).
func c11AtomsOf(v c11V, alias map[string]*c11Term) *c11AtomSet {
	as := &c11AtomSet{Params: map[string]bool{}, KS: map[string]*c11Term{}, Globals: map[string]bool{}, Calls: map[string]bool{}}
	c11Walk(v, func(t *c11Term) bool {
		if alias != nil {
			if n, ok := alias[c11Render(t)]; ok {
				if n == nil {
					return false // cut: the sub-term is looked at separately
				}
				if name, isT := n.Args[0].(*c11Term); isT {
					as.KS[c11Render(name)] = name
				}
				return false
			}
		}
		switch {
		case strings.HasPrefix(t.Op, "param:"):
			as.Params[strings.TrimPrefix(t.Op, "param:")] = true
		case t.Op == "ks" && len(t.Args) == 1:
			if n, ok := t.Args[0].(*c11Term); ok {
				as.KS[c11Render(n)] = n
			}
			return false
		case strings.HasPrefix(t.Op, "global:"):
			as.Globals[strings.TrimPrefix(t.Op, "global:")] = true
		case strings.HasPrefix(t.Op, "call:"):
			k := strings.TrimPrefix(t.Op, "call:")
			if i := strings.LastIndex(k, "#"); i >= 0 {
				k = k[:i]
			}
			if i := strings.LastIndex(k, "@"); i >= 0 {
				k = k[:i]
			}
			as.Calls[k] = true
		case strings.HasPrefix(t.Op, "out:"):
			as.Calls[strings.TrimPrefix(t.Op, "out:")] = true
		case strings.HasPrefix(t.Op, "absorb:"):
		}
		return true
	})
	return as
}

// c11NameParts: the constant string pieces (in order) of a keystore name term.
func c11NameParts(n *c11Term) []string {
	var out []string
	c11Walk(n, func(t *c11Term) bool {
		if t.Op == "sep" {
			return false
		}
		for _, a := range t.Args {
			if c, ok := a.(c11Const); ok && c.V.Kind() == constant.String {
				out = append(out, constant.StringVal(c.V))
			}
		}
		return true
	})
	return out
}

func c11NameBase(n *c11Term) string {
	if p := c11NameParts(n); len(p) > 0 {
		return strings.TrimRight(p[0], "_-:./ ") // "memberSK_"+x and join("memberSK", x, "_") name the same namespace
	}
	return ""
}

func c11NameString(n *c11Term) string {
	base := c11NameBase(n)
	as := c11AtomsOf(n, nil)
	var ps []string
	for p := range as.Params {
		ps = append(ps, p)
	}
	sort.Strings(ps)
	if len(ps) == 0 {
		return fmt.Sprintf("%q", base)
	}
	return fmt.Sprintf("%q+f(%s)", base, strings.Join(ps, ","))
}

func c11IsAccountName(base string) bool { return base == c11NameAccount || base == c11NameProof }
func c11IsDeviceName(base string) bool {
	return base == c11NameDevice || base == c11NameMemDev
}

// nondeterministic or environment-dependent sources
func c11ForbiddenCall(k string) bool {
	for _, p := range []string{"crypto/rand.", "(*crypto/rand.", "math/rand.", "(*math/rand.", "math/rand/v2.", "time.", "(time.", "(*time.", "os.", "runtime.",
		c11Crypto + ".Generate", "crypto/ed25519.GenerateKey", "golang.org/x/crypto/ed25519.GenerateKey", "golang.org/x/crypto/nacl/box.GenerateKey", "github.com/google/uuid.", "crypto/ecdh.(*"} {
		if strings.HasPrefix(k, p) {
			return true
		}
	}
	return false
}

func c11IsRandom(as *c11AtomSet) bool {
	for k := range as.Calls {
		if strings.Contains(k, "rand.") || strings.Contains(k, ".Generate") {
			return true
		}
	}
	for g := range as.Globals {
		if strings.Contains(g, "rand.") {
			return true
		}
	}
	return false
}

// c11Forbidden lists what may not flow into an identity shared between devices/accounts.
func c11Forbidden(as *c11AtomSet) []string {
	var out []string
	for _, n := range as.KS {
		if c11IsDeviceName(c11NameBase(n)) {
			out = append(out, "the device-local key stored as "+c11NameString(n))
		}
	}
	for k := range as.Calls {
		if c11ForbiddenCall(k) {
			out = append(out, "a call of "+k)
		}
	}
	for g := range as.Globals {
		out = append(out, "the package variable "+g)
	}
	sort.Strings(out)
	return out
}

// c11Alias: values generated and stored under a base (account/device) name on this path stand
// for "the key stored under that name".
func c11Alias(ev *c11Eval, st *c11State) map[string]*c11Term {
	alias := map[string]*c11Term{}
	for _, e := range st.ks {
		if !e.Present {
			continue
		}
		base := c11NameBase(e.Name)
		if !c11IsAccountName(base) && !c11IsDeviceName(base) {
			continue
		}
		v := ev.pure(st, e.Val)
		if v.Op == "ks" {
			continue
		}
		alias[c11Render(v)] = c11T("ks", e.Name)
	}
	return alias
}

// c11Subst renders t with sub-terms replaced (rendering -> replacement text).
func c11Subst(v c11V, sub map[string]string) string {
	switch x := v.(type) {
	case *c11Term:
		if r, ok := sub[c11Render(x)]; ok {
			return r
		}
		var b strings.Builder
		b.WriteString(x.Op)
		if len(x.Args) > 0 {
			b.WriteString("(")
			for i, a := range x.Args {
				if i > 0 {
					b.WriteString(",")
				}
				b.WriteString(c11Subst(a, sub))
			}
			b.WriteString(")")
		}
		return b.String()
	case c11Iface:
		return c11Subst(x.V, sub)
	}
	return c11Render(v)
}

// ---------------------------------------------------------------------------

type c11Run struct {
	c      *Ctx
	w      *World
	entry  map[string][]*ssa.Function
	nPaths int

	ksSites, libSites, agreeSites, condSites map[ssa.Instruction]bool
	// putKind: what the value stored at a keystore Put site is: "generated" (fresh randomness),
	// "imported" (supplied by the caller of the import) or "derived" (a deterministic function of
	// other stored keys and inputs, which any racing first use recomputes identically)
	putKind map[ssa.Instruction]string
}

func (r *c11Run) newEval() *c11Eval { return c11NewEval(r.w) }

func (r *c11Run) done(ev *c11Eval) {
	for f := range ev.Inlined {
		r.c.analysed(f)
	}
	seen := map[string]bool{}
	for _, u := range ev.Unknown {
		if !seen[u] {
			seen[u] = true
			r.c.note("evaluator: %s", u)
		}
	}
}

// tally counts the distinct call sites the evaluation went through.
func (r *c11Run) tally(ev *c11Eval, outs []c11Outcome) {
	for _, o := range outs {
		alias := c11Alias(ev, o.St)
		for _, e := range o.St.trace {
			if e.Site == nil {
				continue
			}
			switch {
			case e.Kind == "ks":
				r.ksSites[e.Site] = true
				if e.Key == "Put" && len(e.Args) == 2 {
					// base keys created earlier on the path count as stored keys, not as randomness
					al := map[string]*c11Term{}
					for k, v := range alias {
						if k != c11Render(e.Args[1]) {
							al[k] = v
						}
					}
					if c11IsRandom(c11AtomsOf(e.Args[1], al)) {
						r.putKind[e.Site] = "generated"
					} else if r.putKind[e.Site] == "" {
						r.putKind[e.Site] = "derived"
					}
				}
			case e.Kind == "call":
				r.libSites[e.Site] = true
				if _, ok := c11Agreements[e.Key]; ok {
					r.agreeSites[e.Site] = true
				}
			case e.Kind == "cond":
				r.condSites[e.Site] = true
			}
		}
	}
	r.nPaths += len(outs)
}

func c11Success(o c11Outcome, errIdx int) bool {
	if o.Kind != "return" {
		return false
	}
	if errIdx < 0 || errIdx >= len(o.Results) {
		return true
	}
	nn, known := c11IsNonNil(o.Results[errIdx])
	return !(known && nn)
}

func c11Truncated(outs []c11Outcome) string {
	for _, o := range outs {
		if o.Kind == "truncated" {
			return o.Why
		}
	}
	return ""
}

func runC11(c *Ctx) {
	w := c.W
	r := &c11Run{c: c, w: w, entry: map[string][]*ssa.Function{}, ksSites: map[ssa.Instruction]bool{}, libSites: map[ssa.Instruction]bool{}, agreeSites: map[ssa.Instruction]bool{}, condSites: map[ssa.Instruction]bool{}, putKind: map[ssa.Instruction]string{}}
	iface := namedType(w, pkgSecret, "SecretStore")
	if iface == nil {
		c.undecided("D1", "SecretStore", token.NoPos, "interface secretstore.SecretStore not found")
		return
	}
	it, _ := iface.Underlying().(*types.Interface)
	names := []string{"ImportAccountKeys", "ExportAccountKeysForBackup", "GetGroupForContact", "GetOwnMemberDeviceForGroup", "GetGroupForAccount", "GetAccountProofPublicKey"}
	if it != nil {
		for _, t := range w.implementersOf(it) {
			for _, n := range names {
				if m := w.methodOf(t, n); m != nil && m.Blocks != nil && inModule(m) {
					r.entry[n] = append(r.entry[n], m)
				}
			}
		}
	}
	for rule, n := range map[string]string{"D1": "ImportAccountKeys", "D4": "ExportAccountKeysForBackup", "D2": "GetGroupForContact", "D5": "GetOwnMemberDeviceForGroup"} {
		if len(r.entry[n]) == 0 {
			c.undecided(rule, "SecretStore."+n, token.NoPos, "no module type implements SecretStore.%s with a body", n)
		}
	}
	imp := map[*ssa.Function]*c11Import{}
	for _, fn := range r.entry["ImportAccountKeys"] {
		imp[fn] = r.ruleImport(fn)
	}
	for _, fn := range r.entry["ExportAccountKeysForBackup"] {
		var ii *c11Import
		for _, x := range imp {
			ii = x
		}
		r.ruleExport(fn, ii)
	}
	ownKey := c11NameAccount
	for _, fn := range r.entry["GetGroupForAccount"] {
		if k := r.ruleAccountGroup(fn); k != "" {
			ownKey = k
		}
	}
	nsContact := map[string]bool{}
	for _, fn := range r.entry["GetGroupForContact"] {
		r.ruleContactGroup(fn, nsContact, ownKey)
	}
	nsMember := map[string]bool{}
	for _, fn := range r.entry["GetOwnMemberDeviceForGroup"] {
		r.ruleMemberDevice(fn, nsMember)
	}
	// D3: the cache namespaces of the two derived keys and the base names do not collide
	if len(nsContact) > 0 && len(nsMember) > 0 {
		clash := ""
		for a := range nsContact {
			if nsMember[a] || c11IsAccountName(a) || c11IsDeviceName(a) {
				clash = a
			}
		}
		for a := range nsMember {
			if c11IsAccountName(a) || c11IsDeviceName(a) {
				clash = a
			}
		}
		c.check(clash == "", "D3", "cache-namespaces", token.NoPos,
			fmt.Sprintf("contact-group keys %v, member keys %v and the base key names use different name prefixes", c11Keys(nsContact), c11Keys(nsMember)),
			fmt.Sprintf("the name prefix %q is used for two different kinds of stored keys: a key cached for one purpose is returned for another", clash))
	}
	r.ruleFirstUseAtomic()
	for _, fn := range r.entry["GetAccountProofPublicKey"] {
		r.adviseProofKey(fn)
	}
	c.count("paths_evaluated", r.nPaths)
	c.count("keystore_call_sites", len(r.ksSites))
	c.count("library_call_sites", len(r.libSites))
	c.count("key_agreement_sites", len(r.agreeSites))
	c.count("undetermined_branch_sites", len(r.condSites))
}

func c11Keys(m map[string]bool) []string {
	var out []string
	for k := range m {
		out = append(out, k)
	}
	sort.Strings(out)
	return out
}

func (r *c11Run) debug(tag string, ev *c11Eval, outs []c11Outcome) {
	if os.Getenv("C11_DEBUG") == "" {
		return
	}
	fmt.Printf("== %s: %d outcomes, %d steps, unknown=%v %s\n", tag, len(outs), ev.steps, ev.Unknown, time.Now().Format("15:04:05.000"))
	if os.Getenv("C11_DEBUG") != "2" {
		return
	}
	for i, o := range outs {
		fmt.Printf(" -- outcome %d %s %s\n", i, o.Kind, o.Why)
		for _, res := range o.Results {
			fmt.Printf("    result %s\n", c11Render(ev.reify(o.St, res)))
		}
		for _, e := range o.St.trace {
			switch e.Kind {
			case "cond":
				fmt.Printf("    cond %v %s\n", e.Truth, c11Render(e.Term))
			default:
				var as []string
				for _, a := range e.Args {
					as = append(as, c11Render(a))
				}
				fmt.Printf("    %s %s %s %s\n", e.Kind, e.Key, e.Res, strings.Join(as, " | "))
			}
		}
	}
}

// ---------------------------------------------------------------------------
// D1 (+ import half of D4)

type c11Import struct {
	Fn       *ssa.Function
	Binding  map[string]int // account name -> index of the blob argument stored under it
	ParseKey string
	OK       bool
}

// c11Peel strips single-argument calls (projections such as GetPublic, Raw) until stop holds.
func c11Peel(t *c11Term, stop func(*c11Term) bool) (*c11Term, string) {
	chain := ""
	for !stop(t) && strings.HasPrefix(t.Op, "call:") && len(t.Args) == 1 {
		inner, ok := t.Args[0].(*c11Term)
		if !ok {
			break
		}
		chain += t.Op + ";"
		t = inner
	}
	return t, chain
}

func c11IsEd25519Const(v c11V) bool {
	c, ok := v.(c11Const)
	if !ok || c.T == nil {
		return false
	}
	n, ok := c.T.(*types.Named)
	if !ok || n.Obj().Name() != "KeyType" {
		return false
	}
	return enumConstName(c.T, c.V) == "KeyType_Ed25519"
}

func (r *c11Run) ruleImport(fn *ssa.Function) *c11Import {
	c := r.c
	on := fnName(fn)
	res := &c11Import{Fn: fn, Binding: map[string]int{}}
	if len(fn.Params) != 3 {
		c.undecided("D1", on, fn.Pos(), "import entry has %d parameters, expected receiver and two key blobs", len(fn.Params))
		return res
	}
	ev := r.newEval()
	st := c11NewState()
	outs := ev.Eval(fn, ev.SymArgs(fn, st), st)
	defer r.done(ev)
	r.tally(ev, outs)
	r.debug("import", ev, outs)
	if why := c11Truncated(outs); why != "" {
		c.undecided("D1", on, fn.Pos(), "symbolic evaluation of the import did not terminate within its budget: %s", why)
		return res
	}
	if !r.oneKeystore("D1", on, fn, outs) {
		return res
	}
	blob := []string{"param:" + fn.Params[1].Name(), "param:" + fn.Params[2].Name()}
	// which blob a stored value is parsed from (-1: none)
	keyOf := func(t *c11Term) (int, string) {
		for t.Op == "val" && len(t.Args) == 1 {
			in, ok := t.Args[0].(*c11Term)
			if !ok {
				return -1, ""
			}
			t = in
		}
		if !strings.HasPrefix(t.Op, "call:") || !strings.HasSuffix(t.Op, "#0") || len(t.Args) != 1 {
			return -1, ""
		}
		key := strings.TrimSuffix(strings.TrimPrefix(t.Op, "call:"), "#0")
		known := false
		for _, u := range c11FormatPairs {
			if u == key {
				known = true
			}
		}
		if !known {
			return -1, ""
		}
		for j, b := range blob {
			if c11Render(t.Args[0]) == b {
				return j, key
			}
		}
		return -1, ""
	}
	// names stored by the import, over all paths
	putNames := map[string]bool{}
	importPuts := map[ssa.Instruction]bool{}
	defer func() {
		for site := range importPuts {
			r.putKind[site] = "imported"
		}
	}()
	nPut := 0
	var putPos token.Pos
	badName := ""
	for _, o := range outs {
		for _, e := range o.St.trace {
			if e.Kind == "ks" && e.Key == "Put" {
				nPut++
				putPos = posOf(e.Site)
				importPuts[e.Site] = true
				parts := c11NameParts(e.Args[0])
				if as := c11AtomsOf(e.Args[0], nil); len(parts) != 1 || len(as.Params)+len(as.KS)+len(as.Calls) > 0 {
					badName = c11Render(e.Args[0])
					continue
				}
				putNames[parts[0]] = true
			}
		}
	}
	if nPut == 0 {
		c.fail("D1", on+"+stores-both", fn.Pos(), "no path of the import stores a key in the keystore")
		return res
	}
	if badName != "" {
		c.undecided("D1", on, putPos, "the import stores a key under a name that is not a constant (%s): not modelled", badName)
		return res
	}
	wantNames := c11Keys(putNames)
	// walk every path
	type miss struct{ parse, typ, distinct, complete, binding string }
	var m miss
	fresh := map[string]string{}
	binding := map[string]map[int]bool{}
	notKey := ""
	notKeyUndecided := false
	for _, o := range outs {
		parsed := [2]bool{}
		typed := [2]bool{}
		distinct := false
		hasFalse := map[string]bool{}
		stored := map[string]bool{}
		check := func(what string, pos token.Pos) {
			at := c.pos(pos)
			if !(parsed[0] && parsed[1]) && m.parse == "" {
				m.parse = what + " at " + at
			}
			if !(typed[0] && typed[1]) && m.typ == "" {
				m.typ = what + " at " + at
			}
			if !distinct && m.distinct == "" {
				m.distinct = what + " at " + at
			}
			for _, n := range wantNames {
				if !hasFalse[n] && fresh[n] == "" {
					fresh[n] = what + " at " + at
				}
			}
		}
		for _, e := range o.St.trace {
			switch {
			case e.Kind == "call" && e.Res == "ok" && len(e.Args) == 1:
				for _, u := range c11FormatPairs {
					if e.Key == u {
						for j, b := range blob {
							if c11Render(e.Args[0]) == b {
								parsed[j] = true
								res.ParseKey = u
							}
						}
					}
				}
			case e.Kind == "cond":
				t := e.Term
				// key type test
				if t.Op == "eq" && len(t.Args) == 2 && e.Truth {
					for i := 0; i < 2; i++ {
						if c11IsEd25519Const(t.Args[i]) {
							if ct, ok := t.Args[1-i].(*c11Term); ok && strings.HasSuffix(ct.Op, ").Type#0") && len(ct.Args) == 1 {
								if kt, ok := ct.Args[0].(*c11Term); ok {
									if j, _ := keyOf(kt); j >= 0 {
										typed[j] = true
									}
								}
							}
						}
					}
				}
				if strings.HasPrefix(t.Op, "assertok:") && strings.Contains(t.Op, "Ed25519PrivateKey") && e.Truth && len(t.Args) == 1 {
					if kt, ok := t.Args[0].(*c11Term); ok {
						if j, _ := keyOf(kt); j >= 0 {
							typed[j] = true
						}
					}
				}
				// the two keys compared and found different
				if !e.Truth && len(t.Args) == 2 {
					isEq := t.Op == "eq"
					for _, k := range []string{").Equals#0", ".KeyEqual#0", "bytes.Equal#0"} {
						if strings.HasPrefix(t.Op, "call:") && strings.HasSuffix(t.Op, k) {
							isEq = true
						}
					}
					a, ok1 := t.Args[0].(*c11Term)
					b, ok2 := t.Args[1].(*c11Term)
					if isEq && ok1 && ok2 {
						// both sides must be the same projection of the two PARSED keys. Comparing the
						// input byte slices does not count: one Ed25519 key has several valid
						// encodings (64-byte and legacy 96-byte layout), so different blobs may hold
						// the same key.
						isKey := func(x *c11Term) bool { j, _ := keyOf(x); return j >= 0 }
						ra, ca := c11Peel(a, isKey)
						rb, cb := c11Peel(b, isKey)
						ja, _ := keyOf(ra)
						jb, _ := keyOf(rb)
						if ca == cb && ja >= 0 && jb >= 0 && ja != jb {
							distinct = true
						}
					}
				}
			case e.Kind == "ks" && (e.Key == "Has" && e.Res == "false" || e.Key == "Get" && e.Res == "miss"):
				if p := c11NameParts(e.Args[0]); len(p) == 1 {
					hasFalse[p[0]] = true
				}
			case e.Kind == "ks" && e.Key == "Put":
				name := c11NameParts(e.Args[0])[0]
				check("the keystore Put of "+name, posOf(e.Site))
				j, _ := keyOf(e.Args[1])
				if j < 0 {
					notKey = fmt.Sprintf("the value stored under %q at %s is not a key parsed from one of the two arguments", name, c.pos(posOf(e.Site)))
					vas := c11AtomsOf(e.Args[1], nil)
					if len(c11Forbidden(vas)) == 0 && len(vas.KS) == 0 && len(vas.Params) == 1 {
						notKeyUndecided = true // flows from one argument through operations that are not modelled
					}
				} else {
					if binding[name] == nil {
						binding[name] = map[int]bool{}
					}
					binding[name][j] = true
				}
				if e.Res == "ok" {
					stored[name] = true
				}
			}
		}
		if c11Success(o, 0) {
			check("a success return", fn.Pos())
			for _, n := range wantNames {
				if !stored[n] && m.complete == "" {
					m.complete = fmt.Sprintf("a path returns success without having stored %q (keystore error ignored, early return or skipped name)", n)
				}
			}
		}
	}
	p := fn.Pos()
	c.check(m.parse == "", "D1", on+"+parse-both", p, "both blobs are parsed (and parse errors abort) before any key is stored or success is returned", "not both key blobs have been parsed successfully before "+m.parse)
	c.check(m.typ == "", "D1", on+"+ed25519-both", p, "both parsed keys are tested to be Ed25519 before any key is stored or success is returned", "not both keys have been tested to be of type Ed25519 before "+m.typ+": a non-Ed25519 account key is accepted")
	c.check(m.distinct == "", "D1", on+"+distinct", p, "the two parsed keys are compared and equal keys are refused before any key is stored or success is returned", "the parsed account key and the parsed proof key have not been compared (and found different) before "+m.distinct+": equal keys are accepted (a comparison of the raw blobs does not count: one key has several encodings)")
	for _, n := range wantNames {
		c.check(fresh[n] == "", "D1", on+"+fresh-store["+n+"]", p, "Has("+n+") answered false before any key is stored or success is returned", "the keystore has not been asked (with answer: absent) for "+n+" before "+fresh[n]+": an existing account is overwritten or the import succeeds on a used store")
	}
	c.check(m.complete == "" && len(wantNames) == 2, "D1", on+"+stores-both", p, "every success return follows a successful Put of both names "+strings.Join(wantNames, ", "), func() string {
		if m.complete != "" {
			return m.complete
		}
		return fmt.Sprintf("the import stores %d names %v, expected the account key and the proof key", len(wantNames), wantNames)
	}())
	// D4, import half: which argument lands under which name
	okBind := notKey == ""
	why := notKey
	for _, n := range wantNames {
		if len(binding[n]) != 1 {
			okBind = false
			if why == "" {
				why = fmt.Sprintf("%q receives keys parsed from different arguments on different paths", n)
			}
			continue
		}
		for j := range binding[n] {
			res.Binding[n] = j
		}
	}
	if okBind {
		if res.Binding[c11NameAccount] != 0 || res.Binding[c11NameProof] != 1 || len(res.Binding) != 2 {
			okBind = false
			why = fmt.Sprintf("argument->name mapping is %v; the interface passes the account key first and the proof key second, so they must land under %q and %q", res.Binding, c11NameAccount, c11NameProof)
		}
	}
	if !okBind && notKeyUndecided {
		c.undecided("D4", on+"+argument-binding", p, "%s; it depends on one argument through operations the evaluator does not model", notKey)
		return res
	}
	c.check(okBind, "D4", on+"+argument-binding", p, fmt.Sprintf("first argument is stored as %q, second as %q, each parsed with %s", c11NameAccount, c11NameProof, res.ParseKey), why)
	res.OK = okBind
	return res
}

// ---------------------------------------------------------------------------
// D4 export half

func (r *c11Run) ruleExport(fn *ssa.Function, imp *c11Import) {
	c := r.c
	on := fnName(fn)
	ev := r.newEval()
	st := c11NewState()
	outs := ev.Eval(fn, ev.SymArgs(fn, st), st)
	defer r.done(ev)
	r.tally(ev, outs)
	r.debug("export", ev, outs)
	if why := c11Truncated(outs); why != "" {
		c.undecided("D4", on, fn.Pos(), "symbolic evaluation of the export did not terminate within its budget: %s", why)
		return
	}
	if !r.oneKeystore("D4", on, fn, outs) {
		return
	}
	nres := fn.Signature.Results().Len()
	if nres != 3 {
		c.undecided("D4", on, fn.Pos(), "export entry returns %d values, expected two blobs and an error", nres)
		return
	}
	bad := ""
	marshal := ""
	nOK := 0
	for _, o := range outs {
		if !c11Success(o, 2) {
			continue
		}
		nOK++
		alias := c11Alias(ev, o.St)
		for i, want := range []string{c11NameAccount, c11NameProof} {
			t := ev.pure(o.St, o.Results[i])
			for t.Op == "val" && len(t.Args) == 1 {
				if in, ok := t.Args[0].(*c11Term); ok {
					t = in
				} else {
					break
				}
			}
			key := strings.TrimSuffix(strings.TrimPrefix(t.Op, "call:"), "#0")
			if _, known := c11FormatPairs[key]; !known || len(t.Args) != 1 {
				bad = fmt.Sprintf("result %d is not the marshalled form of a private key (%s)", i, c11Short(c11Render(t)))
				continue
			}
			marshal = key
			as := c11AtomsOf(t.Args[0], alias)
			names := []string{}
			for _, n := range as.KS {
				names = append(names, c11NameBase(n))
			}
			arg, _ := t.Args[0].(*c11Term)
			direct := arg != nil && (arg.Op == "ks" || alias[c11Render(arg)] != nil)
			if len(names) != 1 || names[0] != want || !direct || len(as.Params) > 0 {
				bad = fmt.Sprintf("result %d is the marshalled form of %s, expected exactly the key stored as %q", i, as, want)
			}
		}
	}
	if nOK == 0 {
		bad = "the export has no success path"
	}
	c.check(bad == "", "D4", on+"+results", fn.Pos(), fmt.Sprintf("on all %d success paths the results are %s of the keys stored as %q and %q, in this order", nOK, marshal, c11NameAccount, c11NameProof), bad)
	if imp != nil && imp.ParseKey != "" && marshal != "" {
		c.check(c11FormatPairs[marshal] == imp.ParseKey, "D4", on+"+format", fn.Pos(), "import parses with "+imp.ParseKey+", the inverse of "+marshal, "export writes with "+marshal+" but import parses with "+imp.ParseKey)
	} else if marshal != "" {
		c.undecided("D4", on+"+format", fn.Pos(), "the import side could not be analysed; formats not compared")
	}
}

func c11Short(s string) string {
	if len(s) > 160 {
		return s[:160] + "…"
	}
	return s
}

// ---------------------------------------------------------------------------
// D2 / D3: shared derived identities

// c11Derived describes the get-or-compute of one derived (cached) key on one path.
type c11Derived struct {
	Name   *c11Term
	Hit    bool
	Stored *c11Term // value stored on the miss path (nil: none)
	PutOK  bool
}

func c11DerivedOf(st *c11State) []*c11Derived {
	by := map[string]*c11Derived{}
	var order []*c11Derived
	for _, e := range st.trace {
		if e.Kind != "ks" {
			continue
		}
		base := c11NameBase(e.Args[0])
		if c11IsAccountName(base) || c11IsDeviceName(base) {
			continue
		}
		k := c11Render(e.Args[0])
		d := by[k]
		if d == nil {
			d = &c11Derived{Name: e.Args[0]}
			by[k] = d
			order = append(order, d)
			if (e.Key == "Get" && e.Res == "hit") || (e.Key == "Has" && e.Res == "true") {
				d.Hit = true
			}
		}
		if e.Key == "Put" {
			d.Stored = e.Args[1]
			d.PutOK = e.Res == "ok"
		}
	}
	return order
}

// c11Shared checks one shared identity (a set of labelled terms) on all success paths.
type c11SharedSpec struct {
	Rule2, Rule3 string
	Construct    string
	Pos          token.Pos
	What         string
	NeedAccount  []string // names of stored account keys that must flow in
	AllowAccount []string // names of stored account keys that may flow in; when NeedAccount is empty at least one must
	NeedParams   []string // input paths that must flow in
	AllowParams  []string // input paths that may flow in
	Namespaces   map[string]bool
	CheckAgree   bool
}

type c11PathView struct {
	St     *c11State
	Terms  map[string]*c11Term // label -> value
	Labels []string
}

func (r *c11Run) sharedIdentity(ev *c11Eval, spec c11SharedSpec, paths []c11PathView) {
	c := r.c
	if len(paths) == 0 {
		c.fail(spec.Rule2, spec.Construct+"+inputs", spec.Pos, "%s: no success path", spec.What)
		return
	}
	forbidden, missing, roles, extra := "", "", "", ""
	nAgree := 0
	canon := map[string]string{} // canonical rendering -> description of the path
	nameBad, storeBad := "", ""
	nHit, nMiss := 0, 0
	for _, pv := range paths {
		alias := c11Alias(ev, pv.St)
		ders := c11DerivedOf(pv.St)
		sub := map[string]string{}
		for k, n := range alias {
			sub[k] = "ks(" + c11Render(n.Args[0]) + ")"
		}
		allHit := true
		for _, d := range ders {
			spec.Namespaces[c11NameBase(d.Name)] = true
			if d.Hit {
				continue
			}
			allHit = false
			if d.Stored != nil {
				sub[c11Render(d.Stored)] = "ks(" + c11Render(d.Name) + ")"
			}
		}
		if allHit && len(ders) > 0 {
			nHit++
		} else {
			nMiss++
		}
		var rendered []string
		valParams := map[string]bool{} // inputs the computed value depends on: the cache name must depend on them too
		for _, l := range pv.Labels {
			t := pv.Terms[l]
			rendered = append(rendered, l+"="+c11Subst(t, sub))
			as := c11AtomsOf(t, alias)
			if f := c11Forbidden(as); len(f) > 0 && forbidden == "" {
				forbidden = fmt.Sprintf("%s depends on %s", l, strings.Join(f, " and "))
			}
			// every stored key it reads is an account key or one of its own caches
			if !allHit || len(ders) == 0 {
				for _, want := range spec.NeedAccount {
					found := false
					for _, n := range as.KS {
						if c11NameBase(n) == want {
							found = true
						}
					}
					if !found && missing == "" {
						missing = fmt.Sprintf("%s does not depend on the key stored as %q (it depends on %s)", l, want, as)
					}
				}
				if len(spec.NeedAccount) == 0 {
					found := false
					for _, n := range as.KS {
						for _, a := range spec.AllowAccount {
							if c11NameBase(n) == a {
								found = true
							}
						}
					}
					if !found && missing == "" {
						missing = fmt.Sprintf("%s does not depend on any account key %v (it depends on %s)", l, spec.AllowAccount, as)
					}
				}
				for _, want := range spec.NeedParams {
					if !as.Params[want] && missing == "" {
						missing = fmt.Sprintf("%s does not depend on the input %s (it depends on %s)", l, want, as)
					}
				}
				for _, n := range as.KS {
					b := c11NameBase(n)
					okName := false
					for _, want := range append(append([]string(nil), spec.NeedAccount...), spec.AllowAccount...) {
						if b == want {
							okName = true
						}
					}
					for _, d := range ders {
						if c11Render(d.Name) == c11Render(n) {
							okName = true
						}
					}
					if !okName && extra == "" {
						extra = fmt.Sprintf("%s depends on the key stored as %s, which is not one of its inputs %v", l, c11NameString(n), append(append([]string(nil), spec.NeedAccount...), spec.AllowAccount...))
					}
				}
				for p := range as.Params {
					okP := false
					for _, want := range append(append([]string(nil), spec.NeedParams...), spec.AllowParams...) {
						if p == want {
							okP = true
						}
					}
					if !okP && extra == "" {
						extra = fmt.Sprintf("%s depends on the input %s, which is not one of its inputs %v", l, p, append(append([]string(nil), spec.NeedParams...), spec.AllowParams...))
					}
					valParams[p] = true
				}
			}
		}
		canon[strings.Join(rendered, " ; ")] = fmt.Sprintf("%d cached keys, all found=%v", len(ders), allHit)
		for _, want := range spec.NeedParams {
			valParams[want] = true
		}
		// cache names
		for _, d := range ders {
			nas := c11AtomsOf(d.Name, nil)
			if c11NameBase(d.Name) == "" && nameBad == "" {
				nameBad = "the cache name " + c11Short(c11Render(d.Name)) + " has no constant namespace part"
			}
			for _, want := range c11Keys(valParams) {
				if !nas.Params[want] && nameBad == "" {
					nameBad = fmt.Sprintf("the cache name %s does not depend on the input %s although the cached value does: keys derived for different %s share one cache entry", c11NameString(d.Name), want, want)
				}
			}
			if (len(nas.KS) > 0 || len(nas.Globals) > 0) && nameBad == "" {
				nameBad = fmt.Sprintf("the cache name %s depends on stored keys or package variables", c11NameString(d.Name))
			}
			if !d.Hit && d.Stored == nil && storeBad == "" {
				storeBad = fmt.Sprintf("the value looked up under %s is never stored by the path that computes it", c11NameString(d.Name))
			}
		}
		// key agreement roles
		dhCut := map[string]*c11Term{}
		for k, v := range alias {
			dhCut[k] = v
		}
		if spec.CheckAgree {
			for _, e := range pv.St.trace {
				idx, isAg := c11Agreements[e.Key]
				if e.Kind != "call" || !isAg || idx[0] >= len(e.Args) || idx[1] >= len(e.Args) {
					continue
				}
				// only agreements whose result flows into this identity
				resT := &c11Term{Op: "call:" + e.Key + "#0"}
				for _, a := range e.Args {
					resT.Args = append(resT.Args, a)
				}
				flows := false
				for _, l := range pv.Labels {
					if strings.Contains(c11Render(pv.Terms[l]), c11Render(resT)) {
						flows = true
					}
				}
				if !flows {
					continue
				}
				nAgree++
				dhCut[c11Render(resT)] = nil
				sc := c11AtomsOf(e.Args[idx[0]], alias)
				pt := c11AtomsOf(e.Args[idx[1]], alias)
				priv := false
				for _, n := range sc.KS {
					if c11IsAccountName(c11NameBase(n)) {
						priv = true
					}
				}
				if !priv && roles == "" {
					roles = fmt.Sprintf("%s: the secret scalar of the key agreement at %s does not derive from an account private key (it derives from %s)", spec.What, c.pos(posOf(e.Site)), sc)
				}
				if len(pt.KS) > 0 && roles == "" {
					roles = fmt.Sprintf("%s: the peer point of the key agreement at %s derives from a stored private key (%s): the two sides no longer compute the same shared secret", spec.What, c.pos(posOf(e.Site)), pt)
				}
				for _, want := range spec.NeedParams {
					if !pt.Params[want] && roles == "" {
						roles = fmt.Sprintf("%s: the peer point of the key agreement at %s does not derive from %s (it derives from %s)", spec.What, c.pos(posOf(e.Site)), want, pt)
					}
				}
			}
			// outside the agreement, the own key and the peer's key may only appear together: a
			// use of just one of them is different on the two sides
			if len(dhCut) > len(alias) && len(spec.NeedParams) > 0 {
				for _, l := range pv.Labels {
					rest := c11AtomsOf(pv.Terms[l], dhCut)
					own := false
					for _, n := range rest.KS {
						if c11IsAccountName(c11NameBase(n)) {
							own = true
						}
					}
					peer := false
					for _, want := range spec.NeedParams {
						if rest.Params[want] {
							peer = true
						}
					}
					if own != peer && roles == "" {
						who := "the own account key"
						if peer {
							who = "the peer's public key"
						}
						roles = fmt.Sprintf("%s: %s flows into %s outside the key agreement while the other party's key does not: the two accounts compute different values", spec.What, who, l)
					}
				}
			}
		}
	}
	c.check(forbidden == "", spec.Rule2, spec.Construct+"+no-local-input", spec.Pos, spec.What+": no device key, randomness, clock or package variable flows in", spec.What+": "+forbidden)
	c.check(missing == "" && extra == "", spec.Rule2, spec.Construct+"+inputs", spec.Pos, fmt.Sprintf("%s is a function of stored account keys %v and inputs %v only, and every required one flows in", spec.What, append(append([]string(nil), spec.NeedAccount...), spec.AllowAccount...), append(append([]string(nil), spec.NeedParams...), spec.AllowParams...)), spec.What+": "+missing+extra)
	if spec.CheckAgree {
		if nAgree == 0 && nMiss > 0 && roles == "" && len(spec.NeedParams) > 0 {
			roles = spec.What + ": no key-agreement primitive combines the own private key with the peer's public key on the computing path: two parties cannot arrive at the same secret"
		}
		c.check(roles == "", spec.Rule2, spec.Construct+"+agreement-roles", spec.Pos, "own account key is the scalar and only the peer's public key the point of the key agreement", roles)
	}
	// D3
	c.check(nameBad == "", spec.Rule3, spec.Construct+"+cache-name", spec.Pos, "the cache name has a constant namespace part and depends on every input the cached value depends on", nameBad)
	okAgree := len(canon) == 1 && storeBad == ""
	msg := storeBad
	if msg == "" && len(canon) != 1 {
		var ds []string
		for k, d := range canon {
			ds = append(ds, d+": "+c11Short(k))
		}
		sort.Strings(ds)
		msg = fmt.Sprintf("the result differs between the path that finds the cached key and the path that computes it, after substituting the stored value for the cache entry (%d variants): %s", len(canon), strings.Join(ds, " || "))
	}
	c.check(okAgree, spec.Rule3, spec.Construct+"+cached=computed", spec.Pos, fmt.Sprintf("all %d success paths (%d from cache, %d computing) give the same result once the stored value is substituted for the cache entry", len(paths), nHit, nMiss), msg)
}

// ownKey: the name of the stored key whose public half other accounts know us by (the member
// key of the account group); the contact group must be derived from exactly that private key.
func (r *c11Run) ruleContactGroup(fn *ssa.Function, ns map[string]bool, ownKey string) {
	c := r.c
	on := fnName(fn)
	if len(fn.Params) != 2 || fn.Signature.Results().Len() != 2 {
		c.undecided("D2", on, fn.Pos(), "unexpected signature of GetGroupForContact")
		return
	}
	ev := r.newEval()
	st := c11NewState()
	outs := ev.Eval(fn, ev.SymArgs(fn, st), st)
	defer r.done(ev)
	r.tally(ev, outs)
	r.debug("contact", ev, outs)
	if why := c11Truncated(outs); why != "" {
		c.undecided("D2", on, fn.Pos(), "symbolic evaluation did not terminate within its budget: %s", why)
		return
	}
	if !r.oneKeystore("D2", on, fn, outs) {
		return
	}
	var paths []c11PathView
	for _, o := range outs {
		if !c11Success(o, 1) {
			continue
		}
		p, ok := o.Results[0].(c11Ptr)
		if !ok {
			c.undecided("D2", on, fn.Pos(), "a success path returns a group the evaluator cannot inspect (%s)", c11Short(c11Render(ev.reify(o.St, o.Results[0]))))
			return
		}
		pv := c11PathView{St: o.St, Terms: map[string]*c11Term{}}
		for _, f := range []string{"PublicKey", "Secret"} {
			pv.Labels = append(pv.Labels, f)
			pv.Terms[f] = ev.pure(o.St, ev.load(o.St, c11Ptr{Obj: p.Obj, Path: p.Path + "." + f}, types.NewSlice(types.Typ[types.Byte])))
		}
		paths = append(paths, pv)
	}
	r.sharedIdentity(ev, c11SharedSpec{Rule2: "D2", Rule3: "D3", Construct: on, Pos: fn.Pos(), What: "the contact group (public key, secret)",
		NeedAccount: []string{ownKey}, NeedParams: []string{fn.Params[1].Name()}, Namespaces: ns, CheckAgree: true}, paths)
}

// ---------------------------------------------------------------------------
// D5 (+ D2/D3 for the member key)

// signerOf evaluates method name on the own-member-device value and returns the receiver of
// the Sign call it makes (the private key it signs with), or the returned value for getters.
func (r *c11Run) signerOf(ev *c11Eval, st *c11State, dev c11V, name string) (*c11Term, string) {
	iv, ok := dev.(c11Iface)
	var recv c11V = dev
	var typ types.Type
	if ok {
		recv, typ = iv.V, iv.T
	}
	if typ == nil {
		return nil, "the returned member device has no known concrete type"
	}
	m := r.w.methodOf(typ, name)
	if m == nil || m.Blocks == nil {
		return nil, "method " + name + " not found on " + typ.String()
	}
	s2 := st.clone()
	n0 := len(s2.trace)
	args := []c11V{recv}
	for _, p := range m.Params[1:] {
		args = append(args, c11T("param:"+p.Name()))
	}
	outs := ev.Eval(m, args, s2)
	for _, o := range outs {
		if o.Kind != "return" {
			continue
		}
		if strings.HasSuffix(name, "Sign") {
			for _, e := range o.St.trace[n0:] {
				if e.Kind == "call" && strings.HasSuffix(e.Key, ").Sign") && len(e.Args) > 0 {
					return e.Args[0], ""
				}
			}
			continue
		}
		if len(o.Results) == 1 {
			return ev.pure(o.St, o.Results[0]), ""
		}
	}
	return nil, name + " does not sign with (or return) a key the evaluator can identify"
}

// c11IsPublicOf: pub is priv.GetPublic().
func c11IsPublicOf(pub, priv *c11Term) bool {
	return strings.HasPrefix(pub.Op, "call:") && strings.HasSuffix(pub.Op, ").GetPublic#0") && len(pub.Args) == 1 && c11Render(pub.Args[0]) == c11Render(priv)
}

func (r *c11Run) groupTypes() (map[string]c11Const, *types.Named) {
	gt := namedType(r.w, pkgTypes, "GroupType")
	out := map[string]c11Const{}
	if gt == nil {
		return out, nil
	}
	for _, k := range enumValues(gt) {
		out[k.Name()] = c11Const{V: k.Val(), T: gt}
	}
	return out, gt
}

func (r *c11Run) ruleMemberDevice(fn *ssa.Function, ns map[string]bool) {
	c := r.c
	on := fnName(fn)
	if len(fn.Params) != 2 || fn.Signature.Results().Len() != 2 {
		c.undecided("D5", on, fn.Pos(), "unexpected signature of GetOwnMemberDeviceForGroup")
		return
	}
	gts, gt := r.groupTypes()
	if gt == nil {
		c.undecided("D5", on, fn.Pos(), "enum protocoltypes.GroupType not found")
		return
	}
	gname := fn.Params[1].Name()
	var tnames []string
	for n := range gts {
		tnames = append(tnames, n)
	}
	sort.Strings(tnames)
	for _, tn := range tnames {
		tv := gts[tn]
		if v, _ := constant.Int64Val(tv.V); v == 0 {
			continue // undefined type: whether it is refused is not part of this property
		}
		construct := on + "[" + tn + "]"
		ev := r.newEval()
		ev.Field = func(path string, t types.Type) (c11V, bool) {
			if path == gname+".GroupType" {
				return tv, true
			}
			return nil, false
		}
		st := c11NewState()
		outs := ev.Eval(fn, ev.SymArgs(fn, st), st)
		r.tally(ev, outs)
		r.debug("memberdevice "+tn, ev, outs)
		if why := c11Truncated(outs); why != "" {
			c.undecided("D5", construct, fn.Pos(), "symbolic evaluation did not terminate within its budget: %s", why)
			continue
		}
		if !r.oneKeystore("D5", construct, fn, outs) {
			continue
		}
		multi := strings.HasSuffix(tn, "MultiMember")
		var paths []c11PathView
		memberBad, deviceBad, publicBad, undec := "", "", "", ""
		for _, o := range outs {
			if !c11Success(o, 1) {
				continue
			}
			alias := c11Alias(ev, o.St)
			keys := map[string]*c11Term{}
			for _, meth := range []string{"MemberSign", "DeviceSign", "Member", "Device"} {
				k, why := r.signerOf(ev, o.St, o.Results[0], meth)
				if k == nil {
					undec = why
					break
				}
				keys[meth] = k
			}
			if undec != "" {
				break
			}
			paths = append(paths, c11PathView{St: o.St, Terms: map[string]*c11Term{"member key": keys["MemberSign"]}, Labels: []string{"member key"}})
			// device key: a device-local stored key, random when first created, per group
			dk := keys["DeviceSign"]
			das := c11AtomsOf(dk, alias)
			var dname *c11Term
			for _, n := range das.KS {
				if c11IsDeviceName(c11NameBase(n)) {
					dname = n
				}
			}
			switch {
			case dname == nil || len(das.KS) != 1 || len(das.Params) > 0:
				if deviceBad == "" {
					deviceBad = fmt.Sprintf("the device key is not a key stored under a device-local name; it is a function of %s, which other devices of the account compute too", das)
				}
			case multi && !c11AtomsOf(dname, nil).Params[gname+".PublicKey"]:
				if deviceBad == "" {
					deviceBad = fmt.Sprintf("the device key of a multi-member group is stored as %s, which does not depend on the group's public key: one device key serves every group", c11NameString(dname))
				}
			default:
				// when created on this path it must come from randomness only
				if e := o.St.ks[c11Render(dname)]; e != nil && e.Present {
					v := ev.pure(o.St, e.Val)
					if v.Op != "ks" {
						vas := c11AtomsOf(v, nil)
						if !c11IsRandom(vas) || len(vas.KS) > 0 || len(vas.Params) > 0 {
							if deviceBad == "" {
								deviceBad = fmt.Sprintf("the device key created and stored as %s is derived from %s instead of fresh randomness: every device of the account gets the same device key", c11NameString(dname), vas)
							}
						}
					}
				}
			}
			// public view
			for _, pair := range [][2]string{{"Member", "MemberSign"}, {"Device", "DeviceSign"}} {
				pub, priv := keys[pair[0]], keys[pair[1]]
				if !c11IsPublicOf(pub, priv) && publicBad == "" {
					publicBad = fmt.Sprintf("%s() returns %s, which is not the public half of the key %s uses (%s)", pair[0], c11Short(c11Subst(pub, nil)), pair[1], c11Short(c11Render(priv)))
				}
			}
			// member key: account-wide inputs only
			mas := c11AtomsOf(keys["MemberSign"], alias)
			if f := c11Forbidden(mas); len(f) > 0 && memberBad == "" {
				memberBad = "the member key depends on " + strings.Join(f, " and ")
			}
			acc := false
			for _, n := range mas.KS {
				if c11IsAccountName(c11NameBase(n)) {
					acc = true
				}
			}
			hitOnly := true
			for _, d := range c11DerivedOf(o.St) {
				if !d.Hit {
					hitOnly = false
				}
			}
			if !acc && (!multi || !hitOnly || len(c11DerivedOf(o.St)) == 0) && memberBad == "" {
				memberBad = fmt.Sprintf("the member key does not depend on an account key (it depends on %s)", mas)
			}
		}
		r.done(ev)
		if undec != "" {
			c.undecided("D5", construct, fn.Pos(), "%s", undec)
			continue
		}
		if len(paths) == 0 {
			c.fail("D5", construct+"+member", fn.Pos(), "no success path for this group type: the group cannot be used")
			continue
		}
		c.check(memberBad == "", "D5", construct+"+member", fn.Pos(), "the member key has account-wide inputs only on all success paths", memberBad)
		c.check(deviceBad == "", "D5", construct+"+device", fn.Pos(), "the device key is a device-local stored key (random when created"+map[bool]string{true: ", named by the group key", false: ""}[multi]+")", deviceBad)
		c.check(publicBad == "", "D5", construct+"+public-view", fn.Pos(), "Member()/Device() are the public halves of the signing keys", publicBad)
		if multi {
			r.sharedIdentity(ev, c11SharedSpec{Rule2: "D2", Rule3: "D3", Construct: construct, Pos: fn.Pos(), What: "the member key of a multi-member group",
				AllowAccount: []string{c11NameAccount, c11NameProof}, AllowParams: []string{gname + ".PublicKey"}, Namespaces: ns, CheckAgree: true}, paths)
		}
	}
}

// ruleAccountGroup returns the name of the stored key that is the member key of the account
// group (the key whose public half is handed to other accounts as "our" contact key).
func (r *c11Run) ruleAccountGroup(fn *ssa.Function) string {
	c := r.c
	on := fnName(fn)
	if fn.Signature.Results().Len() != 3 {
		c.undecided("D5", on, fn.Pos(), "unexpected signature of GetGroupForAccount")
		return ""
	}
	ev := r.newEval()
	st := c11NewState()
	outs := ev.Eval(fn, ev.SymArgs(fn, st), st)
	defer r.done(ev)
	r.tally(ev, outs)
	r.debug("accountgroup", ev, outs)
	if why := c11Truncated(outs); why != "" {
		c.undecided("D5", on, fn.Pos(), "symbolic evaluation did not terminate within its budget: %s", why)
		return ""
	}
	if !r.oneKeystore("D5", on, fn, outs) {
		return ""
	}
	groupBad, memberBad, deviceBad := "", "", ""
	memberNames := map[string]bool{}
	n := 0
	for _, o := range outs {
		if !c11Success(o, 2) {
			continue
		}
		p, ok := o.Results[0].(c11Ptr)
		if !ok {
			c.undecided("D5", on, fn.Pos(), "a success path returns a group the evaluator cannot inspect")
			return ""
		}
		n++
		alias := c11Alias(ev, o.St)
		for _, f := range []string{"PublicKey", "Secret"} {
			t := ev.pure(o.St, ev.load(o.St, c11Ptr{Obj: p.Obj, Path: p.Path + "." + f}, types.NewSlice(types.Typ[types.Byte])))
			as := c11AtomsOf(t, alias)
			if fb := c11Forbidden(as); len(fb) > 0 && groupBad == "" {
				groupBad = fmt.Sprintf("the account group's %s depends on %s", f, strings.Join(fb, " and "))
			}
			onlyAccount := len(as.KS) > 0 && len(as.Params) == 0
			for _, nm := range as.KS {
				if !c11IsAccountName(c11NameBase(nm)) {
					onlyAccount = false
				}
			}
			if !onlyAccount && groupBad == "" {
				groupBad = fmt.Sprintf("the account group's %s is a function of %s, expected only the keys an export carries (%q, %q)", f, as, c11NameAccount, c11NameProof)
			}
		}
		mk, why := r.signerOf(ev, o.St, o.Results[1], "MemberSign")
		dk, why2 := r.signerOf(ev, o.St, o.Results[1], "DeviceSign")
		if mk == nil || dk == nil {
			c.undecided("D5", on, fn.Pos(), "%s%s", why, why2)
			return ""
		}
		mas, das := c11AtomsOf(mk, alias), c11AtomsOf(dk, alias)
		if fb := c11Forbidden(mas); len(fb) > 0 && memberBad == "" {
			memberBad = "the member key of the account group depends on " + strings.Join(fb, " and ")
		}
		direct := mk.Op == "ks" || alias[c11Render(mk)] != nil
		for _, nm := range mas.KS {
			if b := c11NameBase(nm); c11IsAccountName(b) && direct && len(mas.KS) == 1 {
				memberNames[b] = true
			} else if memberBad == "" {
				memberBad = fmt.Sprintf("the member key of the account group is not one of the stored account keys (it depends on %s)", mas)
			}
		}
		if len(mas.KS) == 0 && memberBad == "" {
			memberBad = fmt.Sprintf("the member key of the account group is not one of the stored account keys (it depends on %s)", mas)
		}
		dev := false
		for _, nm := range das.KS {
			if c11IsDeviceName(c11NameBase(nm)) {
				dev = true
			}
		}
		if (!dev || len(das.KS) != 1 || len(das.Params) > 0) && deviceBad == "" {
			deviceBad = fmt.Sprintf("the device key of the account group is not a device-local stored key (it depends on %s)", das)
		}
	}
	if n == 0 {
		c.fail("D5", on+"+group", fn.Pos(), "GetGroupForAccount has no success path")
		return ""
	}
	if len(memberNames) > 1 && memberBad == "" {
		memberBad = fmt.Sprintf("the member key of the account group is a different stored key on different paths: %v", c11Keys(memberNames))
	}
	c.check(groupBad == "", "D5", on+"+group", fn.Pos(), fmt.Sprintf("public key and secret derive only from the stored account keys on all %d success paths", n), groupBad)
	c.check(memberBad == "", "D5", on+"+member", fn.Pos(), fmt.Sprintf("the member key is the stored account key %v", c11Keys(memberNames)), memberBad)
	c.check(deviceBad == "", "D5", on+"+device", fn.Pos(), "the device key is the device-local key", deviceBad)
	if memberBad == "" && len(memberNames) == 1 {
		return c11Keys(memberNames)[0]
	}
	return ""
}

// oneKeystore: the keystore model assumes that all keystore calls of an entry point address
// the same store.
func (r *c11Run) oneKeystore(rule, construct string, fn *ssa.Function, outs []c11Outcome) bool {
	recv := map[string]bool{}
	other := ""
	for _, o := range outs {
		for k := range o.St.ksRecv {
			recv[k] = true
		}
		for _, e := range o.St.trace {
			if e.Kind == "call" && strings.HasPrefix(e.Key, "("+c11KsIface+").") {
				other = e.Key
			}
		}
	}
	if len(recv) > 1 {
		r.c.undecided(rule, construct, fn.Pos(), "keystore calls on %d different receivers %v: the single-keystore model does not apply", len(recv), c11Keys(recv))
		return false
	}
	if other != "" {
		r.c.undecided(rule, construct, fn.Pos(), "the keystore method %s is not modelled", other)
		return false
	}
	return true
}

// ---------------------------------------------------------------------------
// D6: look-up-then-store on the keystore is one write-locked critical section
//
// Every function that stores a key after having looked the keystore up (get-or-generate,
// get-or-compute, check-then-import) must hold one lock in write mode from a lookup that
// reaches the store until the store, without releasing it in between, and all such functions
// must use the same lock. Otherwise two first uses interleave: both find the name missing,
// both create a key, the second store overwrites the first, and the first caller keeps (and
// exports, derives groups from) a key that is not the store's; or an import lands on a store
// that has just received an account.
func (r *c11Run) ruleFirstUseAtomic() {
	c, w := r.c, r.w
	li := w.locks()
	looks := map[*ssa.Function][]ssa.Instruction{}
	stores := map[*ssa.Function][]ssa.Instruction{}
	for _, fn := range w.ModFuncs {
		for _, b := range fn.Blocks {
			for _, in := range b.Instrs {
				call, ok := in.(*ssa.Call)
				if !ok {
					continue
				}
				switch calleeKey(call.Common()) {
				case c11KsGet, c11KsHas:
					looks[fn] = append(looks[fn], in)
				case c11KsPut:
					stores[fn] = append(stores[fn], in)
				}
			}
		}
	}
	// helpers that only look up, or only store, count as lookup / store sites of their callers
	for round := 0; round < 3; round++ {
		pureLook, pureStore := map[*ssa.Function]bool{}, map[*ssa.Function]bool{}
		for fn := range looks {
			if len(stores[fn]) == 0 {
				pureLook[fn] = true
			}
		}
		for fn := range stores {
			if len(looks[fn]) == 0 {
				pureStore[fn] = true
			}
		}
		changed := false
		has := func(l []ssa.Instruction, x ssa.Instruction) bool {
			for _, y := range l {
				if y == x {
					return true
				}
			}
			return false
		}
		for _, fn := range w.ModFuncs {
			for _, e := range w.callGraph().callees[fn] {
				site, ok := e.Site.(*ssa.Call)
				if !ok || staticCallee(site.Common()) == nil || e.Callee == fn {
					continue
				}
				if pureLook[e.Callee] && !has(looks[fn], site) {
					looks[fn] = append(looks[fn], site)
					changed = true
				}
				if pureStore[e.Callee] && !has(stores[fn], site) {
					stores[fn] = append(stores[fn], site)
					changed = true
				}
			}
		}
		if !changed {
			break
		}
	}
	var subjects []*ssa.Function
	for fn := range stores {
		if len(looks[fn]) > 0 {
			subjects = append(subjects, fn)
		}
	}
	sort.Slice(subjects, func(i, j int) bool { return subjects[i].String() < subjects[j].String() })
	if len(subjects) == 0 {
		c.undecided("D6", "lookup-then-store", token.NoPos, "no module function both looks the keystore up and stores a key")
		return
	}
	wClasses := func(ls lockSet) map[string]bool {
		out := map[string]bool{}
		for k := range ls {
			if strings.HasSuffix(k, "/W") {
				out[strings.TrimSuffix(k, "/W")] = true
			}
		}
		return out
	}
	released := func(fn *ssa.Function, class string, from, to ssa.Instruction) token.Pos {
		for _, b := range fn.Blocks {
			for _, in := range b.Instrs {
				ci, ok := in.(ssa.CallInstruction)
				if !ok {
					continue
				}
				op, ok := lockOpOf(ci)
				if !ok || op.Class != class || op.Acquire || op.Deferred || op.Mode != 'W' {
					continue
				}
				if instrReaches(from, in) && instrReaches(in, to) {
					return posOf(in)
				}
			}
		}
		return token.NoPos
	}
	okSets := map[*ssa.Function]map[string]bool{}
	whys := map[*ssa.Function]string{}
	votes := map[string]int{}
	for _, fn := range subjects {
		c.analysed(fn)
		var acc map[string]bool
		why := ""
		for _, p := range stores[fn] {
			atP := wClasses(li.heldAt(p))
			good := map[string]bool{}
			var tried []string
			for _, l := range looks[fn] {
				if !instrReaches(l, p) {
					continue
				}
				atL := li.heldAt(l)
				for cl := range atP {
					if !atL.holds(cl, 'W') {
						continue
					}
					if rp := released(fn, cl, l, p); rp.IsValid() {
						tried = append(tried, fmt.Sprintf("%s is released at %s between the lookup at %s and the store", cl, c.pos(rp), c.pos(posOf(l))))
						continue
					}
					good[cl] = true
				}
				if len(atP) == 0 {
					tried = append(tried, fmt.Sprintf("no lock is write-held at the store (the lookup at %s holds %v)", c.pos(posOf(l)), atL.list()))
				} else if len(wClasses(atL)) == 0 {
					tried = append(tried, fmt.Sprintf("the lookup at %s holds %v, not a write lock (the store holds %v)", c.pos(posOf(l)), atL.list(), li.heldAt(p).list()))
				}
			}
			if len(good) == 0 && why == "" {
				sort.Strings(tried)
				if len(tried) == 0 {
					tried = []string{"no lookup reaches the store"}
				}
				why = fmt.Sprintf("the keystore store at %s is not in one write-locked section with a lookup: %s", c.pos(posOf(p)), strings.Join(tried, "; "))
			}
			if acc == nil {
				acc = good
			} else {
				for k := range acc {
					if !good[k] {
						delete(acc, k)
					}
				}
			}
		}
		okSets[fn], whys[fn] = acc, why
		for k := range acc {
			votes[k]++
		}
	}
	common := ""
	for _, k := range c11Keys(map[string]bool(func() map[string]bool {
		m := map[string]bool{}
		for k := range votes {
			m[k] = true
		}
		return m
	}())) {
		if common == "" || votes[k] > votes[common] {
			common = k
		}
	}
	var kindOf func(fn *ssa.Function, site ssa.Instruction, depth int) map[string]bool
	kindOf = func(fn *ssa.Function, site ssa.Instruction, depth int) map[string]bool {
		out := map[string]bool{}
		call, _ := site.(*ssa.Call)
		if call != nil && calleeKey(call.Common()) == c11KsPut {
			k := r.putKind[site]
			if k == "" {
				k = "of unknown origin"
			}
			out[k] = true
			return out
		}
		if call != nil && depth < 4 {
			if cal := staticCallee(call.Common()); cal != nil {
				for _, p := range stores[cal] {
					for k := range kindOf(cal, p, depth+1) {
						out[k] = true
					}
				}
			}
		}
		if len(out) == 0 {
			out["of unknown origin"] = true
		}
		return out
	}
	for _, fn := range subjects {
		construct := fnName(fn) + "+lookup-store-atomic"
		kinds := map[string]bool{}
		for _, p := range stores[fn] {
			for k := range kindOf(fn, p, 0) {
				kinds[k] = true
			}
		}
		if len(kinds) == 1 && kinds["derived"] {
			// a deterministic recomputation: racing first uses store equal values; not required
			if len(okSets[fn]) == 0 || !okSets[fn][common] {
				c.note("advisory: %s looks up and stores a derived key outside a common write-locked section (%s); harmless for C11 because every racer computes the same value", fnName(fn), whys[fn])
			}
			continue
		}
		what := strings.Join(c11Keys(kinds), "/")
		switch {
		case len(okSets[fn]) == 0:
			c.fail("D6", construct, fn.Pos(), "(%s key) %s: two concurrent first uses (or an import and a first use) can both find the name missing and both store; the loser keeps a key that is no longer the store's", what, whys[fn])
		case !okSets[fn][common]:
			c.fail("D6", construct, fn.Pos(), "lookup and store are serialized by %v, the other keystore writers by %s: they do not exclude each other", c11Keys(okSets[fn]), common)
		default:
			c.ok("D6", construct, fn.Pos(), "%d lookup(s) and %d store(s) of a %s key share one section with %s write-held", len(looks[fn]), len(stores[fn]), what, common)
		}
	}
}

// adviseProofKey: outside the property statement, reported as a note only.
func (r *c11Run) adviseProofKey(fn *ssa.Function) {
	ev := r.newEval()
	st := c11NewState()
	outs := ev.Eval(fn, ev.SymArgs(fn, st), st)
	for _, o := range outs {
		if !c11Success(o, 1) || len(o.Results) != 2 {
			continue
		}
		as := c11AtomsOf(ev.pure(o.St, o.Results[0]), c11Alias(ev, o.St))
		for _, n := range as.KS {
			if b := c11NameBase(n); b != c11NameProof {
				r.c.note("advisory (not part of C11): %s returns the public half of the key stored as %q, not of %q", fnName(fn), b, c11NameProof)
				return
			}
		}
	}
}

// ===========================================================================
// Symbolic path evaluator
//
// A small symbolic path evaluator over SSA (analysis A10 of the design, extended
// with finite maps, a keystore model and symbolic terms). Nothing from /repo is executed: the
// evaluator walks the SSA of the module functions behind an entry point, forks on every
// outcome a library call may have (error / no error, key present / absent, unknown branch
// conditions) and represents every value it cannot compute as a *term* over the entry's
// inputs. The C11 rules read the resulting outcomes (results, keystore effects, branch facts).
//
// Everything here is prefixed c11 and used by c11.go only.

const (
	c11KsIface = "github.com/ipfs/go-ipfs-keystore.Keystore"
	c11KsGet   = "(" + c11KsIface + ").Get"
	c11KsPut   = "(" + c11KsIface + ").Put"
	c11KsHas   = "(" + c11KsIface + ").Has"
	c11KsNoKey = "global:github.com/ipfs/go-ipfs-keystore.ErrNoSuchKey"
)

type c11V interface{}

type (
	c11Const struct {
		V constant.Value
		T types.Type
	}
	c11NilV struct{}
	// c11Term: an opaque value. Args are always pure (constants, nil, terms) snapshots.
	c11Term struct {
		Op     string
		Args   []c11V
		NonNil bool
		Hid    int // >0: mutable library object (something with a Write method); state in c11State.hstate
		s      string
	}
	c11Ptr struct {
		Obj  int
		Path string
	}
	c11Slice struct {
		Obj  int
		Path string
		Len  int // known length + 1; 0 = unknown
	}
	// c11Agg: a struct or array VALUE (a private snapshot object whose slots are the fields / elements)
	c11Agg   struct{ Obj int }
	c11MapV  struct{ Obj int }
	c11IterV struct{ Obj int }
	c11Tuple struct{ E []c11V }
	c11Func  struct {
		Fn   *ssa.Function
		Bind []c11V
	}
	c11Iface struct {
		V c11V
		T types.Type
	}
)

type c11Obj struct {
	Sym   string
	Slots map[string]c11V
	IsMap bool
	Keys  []string
	KV    map[string][2]c11V
	Order []string // iterator
	Pos   int
	Of    int
	Known bool // iterator over a modelled map
}

type c11KS struct {
	Name    *c11Term
	Present bool
	Val     c11V
}

type c11Event struct {
	Kind  string // call | cond | ks
	Key   string
	Args  []*c11Term
	Res   string
	Term  *c11Term
	Truth bool
	Site  ssa.Instruction
	Fn    *ssa.Function
}

type c11State struct {
	heap   map[int]*c11Obj
	ks     map[string]*c11KS
	facts  map[string]bool
	trace  []c11Event
	hstate map[int]*c11Term
	ksRecv map[string]bool
	nfresh int // number of nondeterministic library calls so far on this path
}

func c11NewState() *c11State {
	return &c11State{heap: map[int]*c11Obj{}, ks: map[string]*c11KS{}, facts: map[string]bool{}, hstate: map[int]*c11Term{}, ksRecv: map[string]bool{}}
}

func (st *c11State) clone() *c11State {
	n := &c11State{heap: make(map[int]*c11Obj, len(st.heap)), ks: make(map[string]*c11KS, len(st.ks)), facts: make(map[string]bool, len(st.facts)),
		trace: append([]c11Event(nil), st.trace...), hstate: make(map[int]*c11Term, len(st.hstate)), ksRecv: make(map[string]bool, len(st.ksRecv)), nfresh: st.nfresh}
	for id, o := range st.heap {
		cp := &c11Obj{Sym: o.Sym, IsMap: o.IsMap, Pos: o.Pos, Of: o.Of, Known: o.Known}
		if o.Slots != nil {
			cp.Slots = make(map[string]c11V, len(o.Slots))
			for k, v := range o.Slots {
				cp.Slots[k] = v
			}
		}
		cp.Keys = append([]string(nil), o.Keys...)
		cp.Order = append([]string(nil), o.Order...)
		if o.KV != nil {
			cp.KV = make(map[string][2]c11V, len(o.KV))
			for k, v := range o.KV {
				cp.KV[k] = v
			}
		}
		n.heap[id] = cp
	}
	for k, v := range st.ks {
		c := *v
		n.ks[k] = &c
	}
	for k, v := range st.facts {
		n.facts[k] = v
	}
	for k, v := range st.hstate {
		n.hstate[k] = v
	}
	for k, v := range st.ksRecv {
		n.ksRecv[k] = v
	}
	return n
}

type c11Outcome struct {
	Kind    string // return | panic | truncated
	Results []c11V
	St      *c11State
	Why     string
}

type c11Eval struct {
	W        *World
	Field    func(path string, t types.Type) (c11V, bool)
	Inlined  map[*ssa.Function]bool
	MaxDepth int
	MaxVisit int
	MaxSteps int
	nobj     int
	nh       int
	steps    int
	Trunc    string
	Unknown  []string // constructs met that are not modelled (informational)
}

func c11NewEval(w *World) *c11Eval {
	return &c11Eval{W: w, Inlined: map[*ssa.Function]bool{}, MaxDepth: 14, MaxVisit: 10, MaxSteps: 400000}
}

type c11Frame struct {
	fn     *ssa.Function
	vals   map[ssa.Value]c11V
	visits map[*ssa.BasicBlock]int
	depth  int
	stack  []*ssa.Function
}

func (fr *c11Frame) clone() *c11Frame {
	n := &c11Frame{fn: fr.fn, vals: make(map[ssa.Value]c11V, len(fr.vals)), visits: make(map[*ssa.BasicBlock]int, len(fr.visits)), depth: fr.depth, stack: fr.stack}
	for k, v := range fr.vals {
		n.vals[k] = v
	}
	for k, v := range fr.visits {
		n.visits[k] = v
	}
	return n
}

type c11Cont func(res []c11V, st *c11State, kind, why string)

// ---------------------------------------------------------------------------
// terms

func c11T(op string, args ...c11V) *c11Term {
	t := &c11Term{Op: op}
	for _, a := range args {
		t.Args = append(t.Args, a)
	}
	return t
}

func c11Str(s string) c11Const {
	return c11Const{V: constant.MakeString(s), T: types.Typ[types.String]}
}

func c11Bool(b bool) c11Const { return c11Const{V: constant.MakeBool(b), T: types.Typ[types.Bool]} }

// c11Render: canonical text of a pure value.
func c11Render(v c11V) string {
	switch x := v.(type) {
	case nil:
		return "?"
	case c11Const:
		return "c(" + x.V.ExactString() + ")"
	case c11NilV:
		return "nil"
	case *c11Term:
		if x.s != "" {
			return x.s
		}
		var b strings.Builder
		b.WriteString(x.Op)
		if len(x.Args) > 0 {
			b.WriteString("(")
			for i, a := range x.Args {
				if i > 0 {
					b.WriteString(",")
				}
				b.WriteString(c11Render(a))
			}
			b.WriteString(")")
		}
		x.s = b.String()
		return x.s
	case c11Iface:
		return c11Render(x.V)
	}
	return fmt.Sprintf("<impure %T>", v)
}

// reify turns any value into a pure term, reading the heap as it is now.
func (ev *c11Eval) reify(st *c11State, v c11V) c11V {
	return ev.reifyD(st, v, 0)
}

func (ev *c11Eval) reifyD(st *c11State, v c11V, d int) c11V {
	if d > 8 {
		return c11T("deep")
	}
	switch x := v.(type) {
	case nil:
		return c11T("unknown")
	case c11Const, c11NilV:
		return x
	case *c11Term:
		if x.Hid > 0 {
			if s, ok := st.hstate[x.Hid]; ok {
				return s
			}
		}
		return x
	case c11Iface:
		return ev.reifyD(st, x.V, d)
	case c11Ptr:
		return ev.reifyMem(st, x.Obj, x.Path, d)
	case c11Slice:
		return ev.reifyMem(st, x.Obj, x.Path, d)
	case c11MapV:
		o := st.heap[x.Obj]
		t := c11T("map")
		if o != nil {
			keys := append([]string(nil), o.Keys...)
			sort.Strings(keys)
			for _, k := range keys {
				kv := o.KV[k]
				t.Args = append(t.Args, c11T("entry", ev.reifyD(st, kv[0], d+1), ev.reifyD(st, kv[1], d+1)))
			}
		}
		return t
	case c11Agg:
		return ev.reifyMem(st, x.Obj, "", d)
	case c11IterV:
		return c11T("iter")
	case c11Tuple:
		t := c11T("tuple")
		for _, e := range x.E {
			t.Args = append(t.Args, ev.reifyD(st, e, d+1))
		}
		return t
	case c11Func:
		t := c11T("func:" + fnName(x.Fn))
		for _, b := range x.Bind {
			t.Args = append(t.Args, ev.reifyD(st, b, d+1))
		}
		return t
	}
	return c11T("unknown")
}

func (ev *c11Eval) reifyMem(st *c11State, obj int, path string, d int) c11V {
	o := st.heap[obj]
	if o == nil {
		return c11T("unknown")
	}
	if o.Sym != "" {
		return c11T("param:" + o.Sym + path)
	}
	var names []string
	for k := range o.Slots {
		if k == path || strings.HasPrefix(k, path+".") || strings.HasPrefix(k, path+"[") {
			names = append(names, k)
		}
	}
	sort.Strings(names)
	if len(names) == 1 && names[0] == path+"[*]" {
		return ev.reifyD(st, o.Slots[names[0]], d+1) // an unmodified slice is its content
	}
	if len(names) == 1 && names[0] == path {
		return c11T("mem", ev.reifyD(st, o.Slots[path], d+1))
	}
	t := c11T("mem")
	for _, k := range names {
		t.Args = append(t.Args, c11T("slot:"+strings.TrimPrefix(k, path), ev.reifyD(st, o.Slots[k], d+1)))
	}
	return t
}

func (ev *c11Eval) pure(st *c11State, v c11V) *c11Term {
	r := ev.reify(st, v)
	if t, ok := r.(*c11Term); ok {
		return t
	}
	return c11T("val", r)
}

// c11Walk visits every node of a pure term.
func c11Walk(v c11V, f func(t *c11Term) bool) {
	switch x := v.(type) {
	case *c11Term:
		if !f(x) {
			return
		}
		for _, a := range x.Args {
			c11Walk(a, f)
		}
	case c11Iface:
		c11Walk(x.V, f)
	}
}

// ---------------------------------------------------------------------------
// evaluation

// Eval evaluates fn on args from state st (nil: fresh) and returns every outcome.
func (ev *c11Eval) Eval(fn *ssa.Function, args []c11V, st *c11State) []c11Outcome {
	if st == nil {
		st = c11NewState()
	}
	var outs []c11Outcome
	ev.steps = 0
	ev.call(fn, args, nil, nil, st, func(res []c11V, st *c11State, kind, why string) {
		outs = append(outs, c11Outcome{Kind: kind, Results: res, St: st, Why: why})
	})
	return outs
}

// SymArgs builds symbolic arguments for fn in st.
func (ev *c11Eval) SymArgs(fn *ssa.Function, st *c11State) []c11V {
	args := make([]c11V, len(fn.Params))
	for i, p := range fn.Params {
		args[i] = ev.symbolic(st, p.Name(), p.Type())
	}
	return args
}

func (ev *c11Eval) newObj(st *c11State) (int, *c11Obj) {
	ev.nobj++
	o := &c11Obj{Slots: map[string]c11V{}}
	st.heap[ev.nobj] = o
	return ev.nobj, o
}

func (ev *c11Eval) symbolic(st *c11State, path string, t types.Type) c11V {
	if ev.Field != nil {
		if v, ok := ev.Field(path, t); ok {
			return v
		}
	}
	if pt, ok := t.Underlying().(*types.Pointer); ok {
		if _, isStruct := pt.Elem().Underlying().(*types.Struct); isStruct {
			id, o := ev.newObj(st)
			o.Sym = path
			return c11Ptr{Obj: id}
		}
	}
	return c11T("param:" + path)
}

func (ev *c11Eval) call(fn *ssa.Function, args []c11V, bind []c11V, caller *c11Frame, st *c11State, k c11Cont) {
	fr := &c11Frame{fn: fn, vals: map[ssa.Value]c11V{}, visits: map[*ssa.BasicBlock]int{}}
	if caller != nil {
		fr.depth = caller.depth + 1
		fr.stack = append(append([]*ssa.Function(nil), caller.stack...), caller.fn)
	}
	ev.Inlined[fn] = true
	for i, p := range fn.Params {
		if i < len(args) {
			fr.vals[p] = args[i]
		}
	}
	for i, fv := range fn.FreeVars {
		if i < len(bind) {
			fr.vals[fv] = bind[i]
		}
	}
	ev.runBlock(fr, fn.Blocks[0], nil, 0, st, k)
}

func (ev *c11Eval) val(fr *c11Frame, v ssa.Value) c11V {
	if v == nil {
		return nil
	}
	if av, ok := fr.vals[v]; ok {
		return av
	}
	switch x := v.(type) {
	case *ssa.Const:
		if x.Value == nil {
			switch x.Type().Underlying().(type) {
			case *types.Pointer, *types.Interface, *types.Slice, *types.Map, *types.Chan, *types.Signature:
				return c11NilV{}
			case *types.Basic:
				return c11NilV{}
			}
			return c11T("zero")
		}
		return c11Const{V: x.Value, T: x.Type()}
	case *ssa.Function:
		return c11Func{Fn: x}
	case *ssa.Global:
		return c11T("globaladdr:" + c11GlobalName(x))
	}
	return c11T("unknown:" + v.Name())
}

func c11GlobalName(g *ssa.Global) string {
	if g.Pkg != nil && g.Pkg.Pkg != nil {
		return g.Pkg.Pkg.Path() + "." + g.Name()
	}
	return g.String()
}

func c11ZeroOf(t types.Type) c11V {
	switch u := t.Underlying().(type) {
	case *types.Basic:
		switch {
		case u.Info()&types.IsBoolean != 0:
			return c11Const{V: constant.MakeBool(false), T: t}
		case u.Info()&types.IsInteger != 0:
			return c11Const{V: constant.MakeInt64(0), T: t}
		case u.Info()&types.IsString != 0:
			return c11Const{V: constant.MakeString(""), T: t}
		}
	case *types.Pointer, *types.Interface, *types.Slice, *types.Map, *types.Chan, *types.Signature:
		return c11NilV{}
	}
	return c11T("zero")
}

func (ev *c11Eval) load(st *c11State, p c11V, t types.Type) c11V {
	switch x := p.(type) {
	case c11Ptr:
		o := st.heap[x.Obj]
		if o == nil {
			return c11T("unknown")
		}
		if v, ok := o.Slots[x.Path]; ok {
			return v
		}
		if o.Sym != "" {
			if c11IsAggregate(t) {
				id, cp := ev.newObj(st)
				cp.Sym = o.Sym + x.Path
				return c11Agg{Obj: id}
			}
			v := ev.symbolic(st, o.Sym+x.Path, t)
			o.Slots[x.Path] = v
			return v
		}
		// element of an array written as a whole
		if i := strings.LastIndex(x.Path, "["); i >= 0 && strings.HasSuffix(x.Path, "]") {
			if whole, ok := o.Slots[x.Path[:i]+"[*]"]; ok {
				return c11T("elem", ev.reify(st, whole), c11Str(x.Path[i:]))
			}
		}
		// struct / array value: a snapshot that keeps fields and elements apart
		if c11IsAggregate(t) {
			id, cp := ev.newObj(st)
			for k, v := range o.Slots {
				if strings.HasPrefix(k, x.Path+".") || strings.HasPrefix(k, x.Path+"[") {
					cp.Slots[strings.TrimPrefix(k, x.Path)] = v
				}
			}
			return c11Agg{Obj: id}
		}
		for k := range o.Slots {
			if strings.HasPrefix(k, x.Path+".") || strings.HasPrefix(k, x.Path+"[") {
				return ev.reifyMem(st, x.Obj, x.Path, 0)
			}
		}
		return c11ZeroOf(t)
	case *c11Term:
		if strings.HasPrefix(x.Op, "globaladdr:") {
			return &c11Term{Op: "global:" + strings.TrimPrefix(x.Op, "globaladdr:"), NonNil: isErrorType(t)}
		}
		return c11T("load", ev.reify(st, x))
	}
	return c11T("unknown")
}

func c11IsAggregate(t types.Type) bool {
	switch t.Underlying().(type) {
	case *types.Struct, *types.Array:
		return true
	}
	return false
}

func (ev *c11Eval) store(st *c11State, addr c11V, v c11V) {
	p, ok := addr.(c11Ptr)
	if !ok {
		return
	}
	o := st.heap[p.Obj]
	if o == nil {
		return
	}
	for k := range o.Slots {
		if strings.HasPrefix(k, p.Path+".") || (strings.HasPrefix(k, p.Path+"[") && p.Path != "") {
			delete(o.Slots, k)
		}
	}
	if ag, isAgg := v.(c11Agg); isAgg {
		if src := st.heap[ag.Obj]; src != nil && src.Sym == "" {
			delete(o.Slots, p.Path)
			for k, sv := range src.Slots {
				o.Slots[p.Path+k] = sv
			}
			return
		}
		v = ev.reify(st, v)
	}
	o.Slots[p.Path] = v
}

// c11Perms returns the iteration orders explored for a map with the given keys.
func c11Perms(keys []string) [][]string {
	if len(keys) <= 1 {
		return [][]string{append([]string(nil), keys...)}
	}
	if len(keys) > 3 {
		rev := make([]string, len(keys))
		for i, k := range keys {
			rev[len(keys)-1-i] = k
		}
		return [][]string{append([]string(nil), keys...), rev}
	}
	var out [][]string
	var rec func(cur, rest []string)
	rec = func(cur, rest []string) {
		if len(rest) == 0 {
			out = append(out, append([]string(nil), cur...))
			return
		}
		for i := range rest {
			nr := append(append([]string(nil), rest[:i]...), rest[i+1:]...)
			rec(append(cur, rest[i]), nr)
		}
	}
	rec(nil, keys)
	return out
}

func (ev *c11Eval) runBlock(fr *c11Frame, b *ssa.BasicBlock, pred *ssa.BasicBlock, start int, st *c11State, k c11Cont) {
	for {
		if start == 0 {
			fr.visits[b]++
			if fr.visits[b] > ev.MaxVisit {
				ev.Trunc = "loop budget exceeded in " + fnName(fr.fn)
				k(nil, st, "truncated", ev.Trunc)
				return
			}
		}
		ev.steps++
		if ev.steps > ev.MaxSteps {
			ev.Trunc = "step budget exceeded"
			k(nil, st, "truncated", ev.Trunc)
			return
		}
		for i := start; i < len(b.Instrs); i++ {
			in := b.Instrs[i]
			switch x := in.(type) {
			case *ssa.Phi:
				var v c11V
				for pi, p := range b.Preds {
					if p == pred {
						v = ev.val(fr, x.Edges[pi])
						break
					}
				}
				fr.vals[x] = v
			case *ssa.If:
				c := ev.val(fr, x.Cond)
				if cb, ok := c.(c11Const); ok && cb.V.Kind() == constant.Bool {
					nb := b.Succs[1]
					if constant.BoolVal(cb.V) {
						nb = b.Succs[0]
					}
					pred, b, start = b, nb, 0
					goto nextBlock
				}
				ct := ev.pure(st, c)
				base, neg := c11CondBase(ct)
				key := c11Render(base)
				if truth, known := st.facts[key]; known {
					nb := b.Succs[1]
					if truth != neg {
						nb = b.Succs[0]
					}
					pred, b, start = b, nb, 0
					goto nextBlock
				}
				// fork
				fr2, st2 := fr.clone(), st.clone()
				st.facts[key] = !neg // cond true
				st.trace = append(st.trace, c11Event{Kind: "cond", Term: base, Truth: !neg, Site: x, Fn: fr.fn})
				ev.runBlock(fr, b.Succs[0], b, 0, st, k)
				st2.facts[key] = neg // cond false
				st2.trace = append(st2.trace, c11Event{Kind: "cond", Term: base, Truth: neg, Site: x, Fn: fr.fn})
				ev.runBlock(fr2, b.Succs[1], b, 0, st2, k)
				return
			case *ssa.Jump:
				pred, b, start = b, b.Succs[0], 0
				goto nextBlock
			case *ssa.Return:
				res := make([]c11V, len(x.Results))
				for ri, r := range x.Results {
					res[ri] = ev.val(fr, r)
				}
				k(res, st, "return", "")
				return
			case *ssa.Panic:
				k(nil, st, "panic", "explicit panic in "+fnName(fr.fn))
				return
			case *ssa.Call:
				ev.doCall(fr, x, b, i, st, k)
				return
			case *ssa.Go, *ssa.Defer, *ssa.RunDefers, *ssa.DebugRef, *ssa.Send:
			case *ssa.Store:
				ev.store(st, ev.val(fr, x.Addr), ev.val(fr, x.Val))
			case *ssa.MapUpdate:
				if m, ok := ev.val(fr, x.Map).(c11MapV); ok {
					o := st.heap[m.Obj]
					kv := ev.val(fr, x.Key)
					key := c11Render(ev.reify(st, kv))
					if _, had := o.KV[key]; !had {
						o.Keys = append(o.Keys, key)
					}
					o.KV[key] = [2]c11V{kv, ev.val(fr, x.Value)}
				}
			case *ssa.Range:
				m, ok := ev.val(fr, x.X).(c11MapV)
				if !ok {
					id, o := ev.newObj(st)
					o.Known = false
					fr.vals[x] = c11IterV{Obj: id}
					continue
				}
				orders := c11Perms(st.heap[m.Obj].Keys)
				for oi, ord := range orders {
					f2, s2 := fr, st
					if oi < len(orders)-1 {
						f2, s2 = fr.clone(), st.clone()
					}
					id, o := ev.newObj(s2)
					o.Known, o.Of, o.Order = true, m.Obj, ord
					f2.vals[x] = c11IterV{Obj: id}
					ev.runBlock(f2, b, pred, i+1, s2, k)
				}
				return
			default:
				if v, ok := in.(ssa.Value); ok {
					fr.vals[v] = ev.evalInstr(fr, st, v)
				}
			}
		}
		k(nil, st, "truncated", "block without terminator")
		return
	nextBlock:
	}
}

// c11CondBase strips negations: returns the positive condition and whether cond = !base.
func c11CondBase(t *c11Term) (*c11Term, bool) {
	neg := false
	for t.Op == "not" && len(t.Args) == 1 {
		inner, ok := t.Args[0].(*c11Term)
		if !ok {
			break
		}
		t = inner
		neg = !neg
	}
	return t, neg
}

func (ev *c11Eval) evalInstr(fr *c11Frame, st *c11State, v ssa.Value) c11V {
	switch x := v.(type) {
	case *ssa.Alloc:
		id, _ := ev.newObj(st)
		return c11Ptr{Obj: id}
	case *ssa.MakeMap:
		id, o := ev.newObj(st)
		o.IsMap, o.KV = true, map[string][2]c11V{}
		return c11MapV{Obj: id}
	case *ssa.MakeSlice:
		id, _ := ev.newObj(st)
		return c11Slice{Obj: id}
	case *ssa.MakeChan:
		return &c11Term{Op: "chan", NonNil: true}
	case *ssa.FieldAddr:
		if p, ok := ev.val(fr, x.X).(c11Ptr); ok {
			stt := x.X.Type().Underlying().(*types.Pointer).Elem().Underlying().(*types.Struct)
			return c11Ptr{Obj: p.Obj, Path: p.Path + "." + stt.Field(x.Field).Name()}
		}
		return c11T("fieldaddr", ev.reify(st, ev.val(fr, x.X)))
	case *ssa.Field:
		stt := x.X.Type().Underlying().(*types.Struct)
		if ag, ok := ev.val(fr, x.X).(c11Agg); ok {
			return ev.load(st, c11Ptr{Obj: ag.Obj, Path: "." + stt.Field(x.Field).Name()}, x.Type())
		}
		return c11T("field:"+stt.Field(x.Field).Name(), ev.reify(st, ev.val(fr, x.X)))
	case *ssa.IndexAddr:
		idx := "?"
		if c, ok := ev.val(fr, x.Index).(c11Const); ok && c.V.Kind() == constant.Int {
			idx = c.V.ExactString()
		}
		switch bse := ev.val(fr, x.X).(type) {
		case c11Ptr:
			return c11Ptr{Obj: bse.Obj, Path: bse.Path + "[" + idx + "]"}
		case c11Slice:
			return c11Ptr{Obj: bse.Obj, Path: bse.Path + "[" + idx + "]"}
		}
		return c11T("indexaddr", ev.reify(st, ev.val(fr, x.X)), ev.reify(st, ev.val(fr, x.Index)))
	case *ssa.Index:
		if ag, ok := ev.val(fr, x.X).(c11Agg); ok {
			if c, isC := ev.val(fr, x.Index).(c11Const); isC && c.V.Kind() == constant.Int {
				return ev.load(st, c11Ptr{Obj: ag.Obj, Path: "[" + c.V.ExactString() + "]"}, x.Type())
			}
		}
		return c11T("index", ev.reify(st, ev.val(fr, x.X)), ev.reify(st, ev.val(fr, x.Index)))
	case *ssa.UnOp:
		a := ev.val(fr, x.X)
		switch x.Op {
		case token.MUL:
			return ev.load(st, a, x.Type())
		case token.NOT:
			if c, ok := a.(c11Const); ok && c.V.Kind() == constant.Bool {
				return c11Bool(!constant.BoolVal(c.V))
			}
			return c11T("not", ev.pure(st, a))
		case token.SUB, token.XOR:
			if c, ok := a.(c11Const); ok && c.V.Kind() == constant.Int {
				return c11Const{V: constant.UnaryOp(x.Op, c.V, 0), T: c.T}
			}
		}
		return c11T("unop:"+x.Op.String(), ev.reify(st, a))
	case *ssa.BinOp:
		return ev.binop(st, x.Op, ev.val(fr, x.X), ev.val(fr, x.Y), x.Type())
	case *ssa.MakeInterface:
		return c11Iface{V: ev.val(fr, x.X), T: x.X.Type()}
	case *ssa.ChangeInterface:
		return ev.val(fr, x.X)
	case *ssa.ChangeType:
		return ev.val(fr, x.X)
	case *ssa.Convert:
		a := ev.val(fr, x.X)
		if c, ok := a.(c11Const); ok {
			if bt, isB := x.Type().Underlying().(*types.Basic); isB && c.V.Kind() == constant.Int && bt.Info()&types.IsInteger != 0 {
				return c11Const{V: c.V, T: x.Type()}
			}
			if bt, isB := x.Type().Underlying().(*types.Basic); isB && c.V.Kind() == constant.String && bt.Info()&types.IsString != 0 {
				return c11Const{V: c.V, T: x.Type()}
			}
			return c11T("convert", c)
		}
		return a
	case *ssa.SliceToArrayPointer:
		return ev.val(fr, x.X)
	case *ssa.TypeAssert:
		a := ev.val(fr, x.X)
		tname := types.TypeString(x.AssertedType, nil)
		if iv, ok := a.(c11Iface); ok && iv.T != nil {
			match := false
			if it, isI := x.AssertedType.Underlying().(*types.Interface); isI {
				match = types.Implements(iv.T, it)
			} else {
				match = types.Identical(iv.T, x.AssertedType)
			}
			var res c11V = c11ZeroOf(x.AssertedType)
			if match {
				if _, isI := x.AssertedType.Underlying().(*types.Interface); isI {
					res = iv
				} else {
					res = iv.V
				}
			}
			if x.CommaOk {
				return c11Tuple{E: []c11V{res, c11Bool(match)}}
			}
			return res
		}
		if x.CommaOk {
			return c11Tuple{E: []c11V{a, c11T("assertok:"+tname, ev.reify(st, a))}}
		}
		return a
	case *ssa.Extract:
		if t, ok := ev.val(fr, x.Tuple).(c11Tuple); ok && x.Index < len(t.E) {
			return t.E[x.Index]
		}
		return c11T("extract"+strconv.Itoa(x.Index), ev.reify(st, ev.val(fr, x.Tuple)))
	case *ssa.MakeClosure:
		f, _ := x.Fn.(*ssa.Function)
		var bind []c11V
		for _, bv := range x.Bindings {
			bind = append(bind, ev.val(fr, bv))
		}
		return c11Func{Fn: f, Bind: bind}
	case *ssa.Slice:
		base := ev.val(fr, x.X)
		switch p := base.(type) {
		case c11Ptr:
			sl := c11Slice{Obj: p.Obj, Path: p.Path}
			if pt, ok := x.X.Type().Underlying().(*types.Pointer); ok && x.Low == nil && x.High == nil {
				if at, ok := pt.Elem().Underlying().(*types.Array); ok {
					sl.Len = int(at.Len()) + 1
				}
			}
			return sl
		case c11Slice:
			if x.Low != nil || x.High != nil {
				p.Len = 0
			}
			return p
		case c11NilV:
			return p
		}
		if x.Low == nil && x.High == nil {
			return base
		}
		return c11T("slice", ev.reify(st, base), ev.reify(st, ev.val(fr, x.Low)), ev.reify(st, ev.val(fr, x.High)))
	case *ssa.Lookup:
		m, ok := ev.val(fr, x.X).(c11MapV)
		if !ok {
			t := c11T("lookup", ev.reify(st, ev.val(fr, x.X)), ev.reify(st, ev.val(fr, x.Index)))
			if x.CommaOk {
				return c11Tuple{E: []c11V{t, c11T("lookupok", t)}}
			}
			return t
		}
		o := st.heap[m.Obj]
		key := c11Render(ev.reify(st, ev.val(fr, x.Index)))
		kv, has := o.KV[key]
		var res c11V
		if has {
			res = kv[1]
		} else {
			res = c11ZeroOf(x.X.Type().Underlying().(*types.Map).Elem())
		}
		if x.CommaOk {
			return c11Tuple{E: []c11V{res, c11Bool(has)}}
		}
		return res
	case *ssa.Next:
		it, ok := ev.val(fr, x.Iter).(c11IterV)
		if !ok || !st.heap[it.Obj].Known {
			ev.Unknown = append(ev.Unknown, "range over a collection that is not a modelled map in "+fnName(fr.fn))
			return c11Tuple{E: []c11V{c11T("iter-ok"), c11T("iter-key"), c11T("iter-val")}}
		}
		o := st.heap[it.Obj]
		m := st.heap[o.Of]
		for o.Pos < len(o.Order) {
			key := o.Order[o.Pos]
			o.Pos++
			if kv, has := m.KV[key]; has {
				return c11Tuple{E: []c11V{c11Bool(true), kv[0], kv[1]}}
			}
		}
		return c11Tuple{E: []c11V{c11Bool(false), c11T("zero"), c11T("zero")}}
	case *ssa.Select:
		return c11T("select")
	}
	return c11T("unknown:" + v.Name())
}

func c11IsNonNil(v c11V) (nonNil, known bool) {
	switch x := v.(type) {
	case c11NilV:
		return false, true
	case c11Ptr, c11Func, c11MapV:
		return true, true
	case c11Slice:
		return true, true
	case c11Iface:
		return true, true
	case *c11Term:
		if x.NonNil {
			return true, true
		}
	}
	return false, false
}

// c11Distinct: two pure values are known to differ.
func c11Distinct(a, b c11V) bool {
	ta, ok1 := a.(*c11Term)
	tb, ok2 := b.(*c11Term)
	if !ok1 || !ok2 {
		return false
	}
	atom := func(t *c11Term) bool {
		return len(t.Args) == 0 && (strings.HasPrefix(t.Op, "err:") || strings.HasPrefix(t.Op, "global:"))
	}
	if atom(ta) && atom(tb) {
		return ta.Op != tb.Op
	}
	if ta.Op == tb.Op && len(ta.Args) == 1 && len(tb.Args) == 1 && strings.HasPrefix(ta.Op, "call:") {
		return c11Distinct(ta.Args[0], tb.Args[0])
	}
	return false
}

func (ev *c11Eval) binop(st *c11State, op token.Token, a, b c11V, t types.Type) c11V {
	ca, aok := a.(c11Const)
	cb, bok := b.(c11Const)
	if aok && bok {
		switch op {
		case token.EQL, token.NEQ, token.LSS, token.LEQ, token.GTR, token.GEQ:
			if ca.V.Kind() == cb.V.Kind() {
				return c11Bool(constant.Compare(ca.V, op, cb.V))
			}
		case token.ADD, token.SUB, token.MUL, token.AND, token.OR, token.XOR:
			if ca.V.Kind() == cb.V.Kind() && (ca.V.Kind() == constant.Int || ca.V.Kind() == constant.String && op == token.ADD) {
				return c11Const{V: constant.BinaryOp(ca.V, op, cb.V), T: t}
			}
		case token.LAND:
			return c11Bool(constant.BoolVal(ca.V) && constant.BoolVal(cb.V))
		case token.LOR:
			return c11Bool(constant.BoolVal(ca.V) || constant.BoolVal(cb.V))
		}
	}
	if op == token.EQL || op == token.NEQ {
		mk := func(eq bool) c11V { return c11Bool(eq == (op == token.EQL)) }
		_, an := a.(c11NilV)
		_, bn := b.(c11NilV)
		switch {
		case an && bn:
			return mk(true)
		case an || bn:
			other := a
			if an {
				other = b
			}
			if nn, known := c11IsNonNil(other); known {
				return mk(!nn)
			}
		}
		ra, rb := ev.reify(st, a), ev.reify(st, b)
		if !an && !bn {
			if c11Render(ra) == c11Render(rb) {
				return mk(true)
			}
			if c11Distinct(ra, rb) {
				return mk(false)
			}
		}
		// canonical equality term (operands ordered)
		x, y := ra, rb
		if c11Render(x) > c11Render(y) {
			x, y = y, x
		}
		eq := c11T("eq", x, y)
		if truth, known := st.facts[c11Render(eq)]; known {
			return mk(truth)
		}
		if op == token.NEQ {
			return c11T("not", eq)
		}
		return eq
	}
	return c11T("binop:"+op.String(), ev.reify(st, a), ev.reify(st, b))
}

// ---------------------------------------------------------------------------
// calls

func (ev *c11Eval) args(fr *c11Frame, cc *ssa.CallCommon) []c11V {
	var out []c11V
	if cc.IsInvoke() {
		out = append(out, ev.val(fr, cc.Value))
	}
	for _, a := range cc.Args {
		out = append(out, ev.val(fr, a))
	}
	return out
}

func c11HasWrite(t types.Type) bool {
	ms := types.NewMethodSet(t)
	for i := 0; i < ms.Len(); i++ {
		if ms.At(i).Obj().Name() == "Write" {
			return true
		}
	}
	return false
}

func (ev *c11Eval) doCall(fr *c11Frame, x *ssa.Call, b *ssa.BasicBlock, idx int, st *c11State, k c11Cont) {
	cc := x.Common()
	key := calleeKey(cc)
	args := ev.args(fr, cc)
	nres := cc.Signature().Results().Len()
	resume := func(fr *c11Frame, res []c11V, st *c11State) {
		var v c11V
		switch {
		case nres == 0:
		case nres == 1:
			if len(res) == 1 {
				v = res[0]
			} else {
				v = c11T("unknown")
			}
		default:
			if len(res) != nres {
				res = make([]c11V, nres)
				for i := range res {
					res[i] = c11T("unknown")
				}
			}
			v = c11Tuple{E: res}
		}
		fr.vals[x] = v
		ev.runBlock(fr, b, nil, idx+1, st, k)
	}
	// builtins
	if bi, ok := cc.Value.(*ssa.Builtin); ok {
		resume(fr, []c11V{ev.builtin(fr, st, bi.Name(), args)}, st)
		return
	}
	// model oracles
	if ev.oracle(fr, x, key, args, st, resume) {
		return
	}
	// find a body
	var callee *ssa.Function
	var bind []c11V
	if f := staticCallee(cc); f != nil {
		callee = f
		if mc, ok := cc.Value.(*ssa.MakeClosure); ok {
			for _, bv := range mc.Bindings {
				bind = append(bind, ev.val(fr, bv))
			}
		}
	} else if !cc.IsInvoke() {
		if fv, ok := ev.val(fr, cc.Value).(c11Func); ok {
			callee, bind = fv.Fn, fv.Bind
		}
	} else if iv, ok := args[0].(c11Iface); ok && iv.T != nil {
		if m := ev.W.methodOf(iv.T, cc.Method.Name()); m != nil && m.Blocks != nil {
			callee = m
			args = append([]c11V{iv.V}, args[1:]...)
		}
	}
	if callee != nil && callee.Blocks == nil {
		if o := callee.Origin(); o != nil && o.Blocks != nil {
			callee = o
		}
	}
	if callee != nil && callee.Blocks != nil && inModule(callee) {
		rec := callee == fr.fn
		for _, f := range fr.stack {
			if f == callee {
				rec = true
			}
		}
		if !rec && fr.depth < ev.MaxDepth {
			base := fr
			ev.call(callee, args, bind, fr, st, func(res []c11V, st2 *c11State, kind, why string) {
				if kind != "return" {
					k(res, st2, kind, why)
					return
				}
				// every outcome of the callee resumes the caller on its own copy of the frame
				resume(base.clone(), res, st2)
			})
			return
		}
		ev.Unknown = append(ev.Unknown, "call of "+fnName(callee)+" not followed (recursion or depth)")
	}
	ev.libCall(fr, x, key, args, st, resume)
}

func (ev *c11Eval) builtin(fr *c11Frame, st *c11State, name string, args []c11V) c11V {
	switch name {
	case "len", "cap":
		switch a := args[0].(type) {
		case c11Const:
			if a.V.Kind() == constant.String {
				return c11Const{V: constant.MakeInt64(int64(len(constant.StringVal(a.V)))), T: types.Typ[types.Int]}
			}
		case c11NilV:
			return c11Const{V: constant.MakeInt64(0), T: types.Typ[types.Int]}
		case c11MapV:
			return c11Const{V: constant.MakeInt64(int64(len(st.heap[a.Obj].Keys))), T: types.Typ[types.Int]}
		case c11Slice:
			if a.Len > 0 {
				return c11Const{V: constant.MakeInt64(int64(a.Len - 1)), T: types.Typ[types.Int]}
			}
		}
		return c11T("len", ev.reify(st, args[0]))
	case "copy":
		src := ev.reify(st, args[1])
		switch d := args[0].(type) {
		case c11Slice:
			if o := st.heap[d.Obj]; o != nil {
				o.Slots[d.Path+"[*]"] = c11T("copy", src)
			}
		}
		return c11T("copy-n", src)
	case "append":
		// slices of known length stay element-wise
		if len(args) == 2 {
			la, lb := -1, -1
			var sa, sb c11Slice
			switch a := args[0].(type) {
			case c11NilV:
				la = 0
			case c11Slice:
				if a.Len > 0 {
					la, sa = a.Len-1, a
				}
			}
			switch b := args[1].(type) {
			case c11NilV:
				lb = 0
			case c11Slice:
				if b.Len > 0 {
					lb, sb = b.Len-1, b
				}
			}
			if la >= 0 && lb >= 0 {
				id, o := ev.newObj(st)
				cp := func(src c11Slice, n, off int) {
					so := st.heap[src.Obj]
					for i := 0; i < n; i++ {
						from := fmt.Sprintf("%s[%d]", src.Path, i)
						for k, v := range so.Slots {
							if k == from || strings.HasPrefix(k, from+".") || strings.HasPrefix(k, from+"[") {
								o.Slots[fmt.Sprintf("[%d]%s", off+i, strings.TrimPrefix(k, from))] = v
							}
						}
					}
				}
				if la > 0 {
					cp(sa, la, 0)
				}
				if lb > 0 {
					cp(sb, lb, la)
				}
				return c11Slice{Obj: id, Len: la + lb + 1}
			}
		}
		t := c11T("append")
		for _, a := range args {
			t.Args = append(t.Args, ev.reify(st, a))
		}
		return t
	case "delete":
		if m, ok := args[0].(c11MapV); ok && len(args) > 1 {
			o := st.heap[m.Obj]
			key := c11Render(ev.reify(st, args[1]))
			delete(o.KV, key)
			for i, kk := range o.Keys {
				if kk == key {
					o.Keys = append(o.Keys[:i:i], o.Keys[i+1:]...)
					break
				}
			}
		}
		return nil
	}
	t := c11T("builtin:" + name)
	for _, a := range args {
		t.Args = append(t.Args, ev.reify(st, a))
	}
	return t
}

type c11Resume func(fr *c11Frame, res []c11V, st *c11State)

func (ev *c11Eval) event(st *c11State, fr *c11Frame, x ssa.Instruction, kind, key, res string, args ...c11V) {
	e := c11Event{Kind: kind, Key: key, Res: res, Site: x, Fn: fr.fn}
	for _, a := range args {
		e.Args = append(e.Args, ev.pure(st, a))
	}
	st.trace = append(st.trace, e)
}

// oracle: calls with a dedicated model. Returns true when handled.
func (ev *c11Eval) oracle(fr *c11Frame, x *ssa.Call, key string, args []c11V, st *c11State, resume c11Resume) bool {
	switch {
	case strings.HasPrefix(key, "(*sync."), strings.HasPrefix(key, "(sync."), strings.HasPrefix(key, "(*go.uber.org/zap."):
		n := x.Common().Signature().Results().Len()
		res := make([]c11V, n)
		for i := range res {
			res[i] = c11T("unknown")
		}
		resume(fr, res, st)
		return true
	case strings.HasSuffix(key, "pkg/errcode.ErrCode).Wrap"):
		resume(fr, []c11V{&c11Term{Op: "err:wrap", Args: []c11V{ev.reify(st, args[len(args)-1])}, NonNil: true}}, st)
		return true
	case key == "fmt.Errorf" || key == "errors.New":
		t := &c11Term{Op: "err:new", NonNil: true}
		for _, a := range args {
			t.Args = append(t.Args, ev.reify(st, a))
		}
		resume(fr, []c11V{t}, st)
		return true
	case key == "errors.Is" && len(args) == 2:
		ra, rb := ev.reify(st, args[0]), ev.reify(st, args[1])
		if c11Render(ra) == c11Render(rb) {
			resume(fr, []c11V{c11Bool(true)}, st)
			return true
		}
		if c11Distinct(ra, rb) {
			resume(fr, []c11V{c11Bool(false)}, st)
			return true
		}
		if _, isNil := ra.(c11NilV); isNil {
			resume(fr, []c11V{c11Bool(false)}, st)
			return true
		}
		return false
	case key == "fmt.Sprintf" && len(args) == 2:
		t := c11T("sprintf", c11T("sep", ev.reify(st, args[0])))
		if sl, ok := args[1].(c11Slice); ok {
			o := st.heap[sl.Obj]
			for i := 0; ; i++ {
				v, has := o.Slots[fmt.Sprintf("%s[%d]", sl.Path, i)]
				if !has {
					break
				}
				t.Args = append(t.Args, ev.reify(st, v))
			}
		} else {
			t.Args = append(t.Args, ev.reify(st, args[1]))
		}
		resume(fr, []c11V{t}, st)
		return true
	case key == "strings.Join" && len(args) == 2:
		t := c11T("join")
		if s, ok := args[0].(c11Slice); ok {
			o := st.heap[s.Obj]
			for i := 0; ; i++ {
				v, has := o.Slots[fmt.Sprintf("%s[%d]", s.Path, i)]
				if !has {
					break
				}
				t.Args = append(t.Args, ev.reify(st, v))
			}
		} else {
			t.Args = append(t.Args, ev.reify(st, args[0]))
		}
		t.Args = append(t.Args, c11T("sep", ev.reify(st, args[1])))
		resume(fr, []c11V{t}, st)
		return true
	case key == c11KsGet && len(args) == 2:
		name := ev.pure(st, args[1])
		ev.noteKsRecv(st, args[0])
		nk := c11Render(name)
		if e, ok := st.ks[nk]; ok {
			if e.Present {
				ev.event(st, fr, x, "ks", "Get", "hit", name, e.Val)
				resume(fr, []c11V{e.Val, c11NilV{}}, st)
			} else {
				ev.event(st, fr, x, "ks", "Get", "miss", name)
				resume(fr, []c11V{c11NilV{}, &c11Term{Op: c11KsNoKey, NonNil: true}}, st)
			}
			return true
		}
		// three outcomes: present (initial content), absent, read failure
		f2, s2 := fr.clone(), st.clone()
		f3, s3 := fr.clone(), st.clone()
		v := &c11Term{Op: "ks", Args: []c11V{name}, NonNil: true}
		st.ks[nk] = &c11KS{Name: name, Present: true, Val: v}
		ev.event(st, fr, x, "ks", "Get", "hit", name, v)
		resume(fr, []c11V{v, c11NilV{}}, st)
		s2.ks[nk] = &c11KS{Name: name, Present: false}
		ev.event(s2, f2, x, "ks", "Get", "miss", name)
		resume(f2, []c11V{c11NilV{}, &c11Term{Op: c11KsNoKey, NonNil: true}}, s2)
		ev.event(s3, f3, x, "ks", "Get", "fail", name)
		resume(f3, []c11V{c11NilV{}, &c11Term{Op: "err:keystore.Get", NonNil: true}}, s3)
		return true
	case key == c11KsHas && len(args) == 2:
		name := ev.pure(st, args[1])
		ev.noteKsRecv(st, args[0])
		nk := c11Render(name)
		if e, ok := st.ks[nk]; ok {
			ev.event(st, fr, x, "ks", "Has", strconv.FormatBool(e.Present), name)
			resume(fr, []c11V{c11Bool(e.Present), c11NilV{}}, st)
			return true
		}
		f2, s2 := fr.clone(), st.clone()
		f3, s3 := fr.clone(), st.clone()
		st.ks[nk] = &c11KS{Name: name, Present: true, Val: &c11Term{Op: "ks", Args: []c11V{name}, NonNil: true}}
		ev.event(st, fr, x, "ks", "Has", "true", name)
		resume(fr, []c11V{c11Bool(true), c11NilV{}}, st)
		s2.ks[nk] = &c11KS{Name: name, Present: false}
		ev.event(s2, f2, x, "ks", "Has", "false", name)
		resume(f2, []c11V{c11Bool(false), c11NilV{}}, s2)
		ev.event(s3, f3, x, "ks", "Has", "fail", name)
		resume(f3, []c11V{c11Bool(false), &c11Term{Op: "err:keystore.Has", NonNil: true}}, s3)
		return true
	case key == c11KsPut && len(args) == 3:
		name := ev.pure(st, args[1])
		ev.noteKsRecv(st, args[0])
		nk := c11Render(name)
		val := ev.reify(st, args[2])
		f2, s2 := fr.clone(), st.clone()
		st.ks[nk] = &c11KS{Name: name, Present: true, Val: args[2]}
		ev.event(st, fr, x, "ks", "Put", "ok", name, val)
		resume(fr, []c11V{c11NilV{}}, st)
		ev.event(s2, f2, x, "ks", "Put", "fail", name, val)
		resume(f2, []c11V{&c11Term{Op: "err:keystore.Put", NonNil: true}}, s2)
		return true
	}
	return false
}

func (ev *c11Eval) noteKsRecv(st *c11State, recv c11V) {
	st.ksRecv[c11Render(ev.reify(st, recv))] = true
}

// libCall: a call whose body is not interpreted. Results are terms over the arguments; a
// trailing error result forks into failure and success.
func (ev *c11Eval) libCall(fr *c11Frame, x *ssa.Call, key string, args []c11V, st *c11State, resume c11Resume) {
	cc := x.Common()
	sig := cc.Signature()
	n := sig.Results().Len()
	if key == "" {
		key = "dynamic"
	}
	pargs := make([]c11V, len(args))
	for i, a := range args {
		pargs[i] = ev.reify(st, a)
	}
	// data absorbed by a mutable library object (hash.Hash.Write and friends)
	if cc.IsInvoke() || (staticCallee(cc) != nil && staticCallee(cc).Signature.Recv() != nil) {
		if len(args) > 0 {
			if h, ok := args[0].(*c11Term); ok && h.Hid > 0 {
				name := ""
				if cc.IsInvoke() {
					name = cc.Method.Name()
				} else {
					name = staticCallee(cc).Name()
				}
				if strings.HasPrefix(name, "Write") || name == "Reset" || strings.HasPrefix(name, "Read") {
					cur := st.hstate[h.Hid]
					st.hstate[h.Hid] = c11T("absorb:"+name, append([]c11V{cur}, pargs[1:]...)...)
				}
			}
		}
	}
	// memory handed to the callee may be written by it
	for i, a := range args {
		var obj int
		var path string
		switch p := a.(type) {
		case c11Ptr:
			obj, path = p.Obj, p.Path
		case c11Slice:
			obj, path = p.Obj, p.Path+"[*]"
		case c11Iface:
			if pp, ok := p.V.(c11Ptr); ok {
				obj, path = pp.Obj, pp.Path
			}
		}
		if obj == 0 {
			continue
		}
		if o := st.heap[obj]; o != nil && o.Sym == "" {
			others := []c11V{pargs[i]}
			for j, pa := range pargs {
				if j != i {
					others = append(others, pa)
				}
			}
			o.Slots[path] = c11T("out:"+key, others...)
		}
	}
	// a call that draws on randomness, the clock or the environment yields a different value
	// each time: its results carry the ordinal of the call on this path
	opKey := key
	nondet := c11ForbiddenCall(key)
	for _, pa := range pargs {
		if t, ok := pa.(*c11Term); ok && strings.HasPrefix(t.Op, "global:") && strings.Contains(t.Op, "rand.") {
			nondet = true // the randomness source itself is handed to the callee
		}
	}
	if nondet {
		st.nfresh++
		opKey = key + "@" + strconv.Itoa(st.nfresh)
	}
	mk := func(st *c11State, i int) c11V {
		rt := sig.Results().At(i).Type()
		t := &c11Term{Op: "call:" + opKey + "#" + strconv.Itoa(i), Args: pargs}
		if _, isSlice := rt.Underlying().(*types.Slice); isSlice {
			id, o := ev.newObj(st)
			o.Slots["[*]"] = t
			return c11Slice{Obj: id}
		}
		if (types.IsInterface(rt) || c11IsPointer(rt)) && c11HasWrite(rt) {
			ev.nh++
			h := &c11Term{Op: t.Op, Args: pargs, Hid: ev.nh, NonNil: true}
			st.hstate[ev.nh] = t
			return h
		}
		return t
	}
	ei := -1
	if n > 0 && isErrorType(sig.Results().At(n-1).Type()) {
		ei = n - 1
	}
	if ei < 0 {
		res := make([]c11V, n)
		for i := range res {
			res[i] = mk(st, i)
		}
		st.trace = append(st.trace, c11Event{Kind: "call", Key: key, Res: "ok", Args: c11Terms(pargs), Site: x, Fn: fr.fn})
		resume(fr, res, st)
		return
	}
	f2, s2 := fr.clone(), st.clone()
	res := make([]c11V, n)
	for i := range res {
		if i == ei {
			res[i] = c11NilV{}
		} else {
			res[i] = mk(st, i)
			if t, ok := res[i].(*c11Term); ok && n > 1 {
				// a value returned together with a nil error is taken to be usable
				if c11IsPointer(sig.Results().At(i).Type()) || types.IsInterface(sig.Results().At(i).Type()) {
					t.NonNil = true
				}
			}
		}
	}
	st.trace = append(st.trace, c11Event{Kind: "call", Key: key, Res: "ok", Args: c11Terms(pargs), Site: x, Fn: fr.fn})
	resume(fr, res, st)
	res2 := make([]c11V, n)
	for i := range res2 {
		if i == ei {
			res2[i] = &c11Term{Op: "err:" + key, NonNil: true}
		} else {
			res2[i] = c11ZeroOf(sig.Results().At(i).Type())
		}
	}
	s2.trace = append(s2.trace, c11Event{Kind: "call", Key: key, Res: "err", Args: c11Terms(pargs), Site: x, Fn: fr.fn})
	resume(f2, res2, s2)
}

func c11IsPointer(t types.Type) bool {
	_, ok := t.Underlying().(*types.Pointer)
	return ok
}

func c11Terms(vs []c11V) []*c11Term {
	out := make([]*c11Term, len(vs))
	for i, v := range vs {
		if t, ok := v.(*c11Term); ok {
			out[i] = t
		} else {
			out[i] = c11T("val", v)
		}
	}
	return out
}
