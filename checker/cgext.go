package main

// Call-graph completion for the withLock(func()) idiom: a module helper H whose func-typed
// parameter p is used for nothing but being called (`Lock(); defer Unlock(); fn()`, also as a
// generic function `withLock[T](s, fn func() (T, error))`), called with a closure or a named
// function that is used for nothing but that call. The call `p()` inside H is then a call of
// that closure: the edge (H, p(), closure) is added to the module call graph, once per program
// and for every property alike (runProperty), so that reachability, effect summaries and lock
// contexts see through the helper exactly as lockset.go's entry computation already does.
// The edge is context-insensitive (every closure handed to H is a callee of H), which is what
// the rest of the graph is too (static + CHA).

import (
	"go/types"

	"golang.org/x/tools/go/ssa"
)

func helperClosureEdges(w *World) {
	if _, done := w.memo["helperClosureEdges"]; done {
		return
	}
	w.memo["helperClosureEdges"] = true
	cg := w.callGraph()
	added := false
	for _, h := range w.ModFuncs {
		if h.Blocks == nil {
			continue
		}
		for pi, prm := range h.Params {
			if _, isSig := prm.Type().Underlying().(*types.Signature); !isSig || prm.Referrers() == nil {
				continue
			}
			var calls []ssa.CallInstruction
			onlyCalled := true
			for _, r := range *prm.Referrers() {
				if c, isCall := r.(*ssa.Call); isCall && c.Common().Value == ssa.Value(prm) {
					calls = append(calls, c)
					continue
				}
				if _, isDbg := r.(*ssa.DebugRef); isDbg {
					continue
				}
				onlyCalled = false
			}
			if !onlyCalled || len(calls) == 0 {
				continue
			}
			for _, cs := range cg.callers[h] {
				call, isCall := cs.Instr.(*ssa.Call)
				if !isCall || call.Common().IsInvoke() || pi >= len(call.Common().Args) {
					continue
				}
				var target *ssa.Function
				var holder ssa.Value
				switch a := call.Common().Args[pi].(type) {
				case *ssa.MakeClosure:
					target, _ = a.Fn.(*ssa.Function)
					holder = a
				case *ssa.Function:
					target = a
				}
				if target == nil || target.Blocks == nil {
					continue
				}
				if holder != nil && holder.Referrers() != nil {
					other := false
					for _, r := range *holder.Referrers() {
						if r != cs.Instr {
							if _, isDbg := r.(*ssa.DebugRef); !isDbg {
								other = true
							}
						}
					}
					if other {
						continue
					}
				}
				for _, c := range calls {
					have := false
					for _, e := range cg.callees[h] {
						if e.Site == c && e.Callee == target {
							have = true
						}
					}
					if !have {
						cg.callees[h] = append(cg.callees[h], callEdge{c, target})
						cg.callers[target] = append(cg.callers[target], callSite{h, c})
						added = true
					}
				}
			}
		}
	}
	if added {
		delete(w.memo, "effects")
		delete(w.memo, "lockinfo")
	}
}
