#!/bin/sh
# usage: refactor_prompt.sh C01 r  -> prompt for an independent "harmless refactor" sub-agent
P=$1; S=${2:-r}; D=/tmp/refac-$P-$S
ROUNDNOTE=""
if [ "$S" != "r" ]; then ROUNDNOTE="
Other maintainers have already done the most common clean-ups in these files (extracting a helper from
a long function, renaming, if/else <-> switch, early returns, hoisting a local, moving code to another
file). Choose DIFFERENT kinds of behaviour-preserving change this time, for instance: introduce a small
unexported type (struct or named func type) to carry values that are passed around together, or replace
it by plain parameters; turn a method into a function taking the receiver's fields it needs (or the
reverse); replace a closure by a named method or a method value; make a table-driven version of repeated
statements (slice of structs / map of funcs iterated in a fixed order) or unroll such a table; thread a
value through a struct field set in the constructor instead of recomputing it, when it is immutable;
use generics or a small interface to merge two near-identical functions; replace a bool parameter by
two functions; use errors.Is / errors.As / a sentinel where an == comparison on the same sentinel was
used; wrap a lock/unlock pair in a withLock(func()) helper without changing what runs under the lock;
replace manual defer ordering by a single cleanup func; convert a goroutine + WaitGroup into the same
thing written with a helper; change a for-range over indexes to a range over values (or back); replace
append-in-loop by slices.Collect/slices.Grow-style preallocation; use min/max/clamp builtins; replace
fmt.Errorf wrapping by the project errcode wrapper ONLY where the resulting error value compares equal
for every caller test (errors.Is/errcode.Is) - when in doubt leave error values alone.
"; fi
cat <<TXT
You are a maintainer of a Go code base doing routine clean-up work. A private git worktree of the
repository berty/weshnet (Go module berty.tech/weshnet/v2) has been created for you at $D .
Work ONLY inside $D (and files you create under $D/_refac). Do not read or write anything under
/verif or /root, and do not touch /repo.

The code satisfies this semantic property, and it must KEEP satisfying it:

$(python3 - <<PY
import json
for l in open('/verif/properties.jsonl'):
    p=json.loads(l)
    if p['id']=='$P':
        print('  title:',p['title']); print('  statement:',p['statement']); print('  anchored in:',', '.join(p['anchors']['files']));
        for m in p['anchors'].get('mechanism',[]): print('   -',m['name'],'(',m['where'],')')
PY
)

$ROUNDNOTE
Your job: produce FOUR different, independent, realistic BEHAVIOUR-PRESERVING changes to the
NON-TEST source of weshnet in the files this property is anchored in (and their direct helpers) —
the kind of change that lands in a code base every week and that must not alter what the code does:
extract a helper function or method from a long function (or inline a small one); rename
unexported functions, variables, struct fields; replace an if/else chain by a switch (or back);
invert a condition with an early return; hoist a computation out of a loop or introduce a local
variable for a repeated expression; split a function into "decode" and "check" parts while every
caller still performs both; reorder INDEPENDENT statements; replace a hand-written loop by an
equivalent library call (or back); change a value receiver detail, add a defer for an unlock that
was explicit on every path (or the reverse) without changing which code runs under the lock; wrap
errors differently; move a function to another file of the same package; add logging or metrics.
Touch the code the property's mechanisms live in (that is the point), make the four changes different
in kind, make each one non-trivial (a reviewer would call it a refactor, not a typo fix: 15-80
changed lines), and make sure each one is STRICTLY behaviour-preserving for every input, schedule
and crash point: same checks on every path, same order of writes, same locks held over the same
operations, same error/no-error outcomes. Do not edit or delete tests, build files or generated
*.pb.go files. Do not fix bugs you believe you see.

For EACH change N (1..4) create the directory $D/_refac/N/ containing:
  - patch.diff : the change, as produced by 'git diff' in $D (only that change applied)
  - meta.json  : {"property": "$P", "kind": "...", "summary": "what was restructured",
                  "why_behaviour_preserving": "...", "files_changed": [...], "tests_run": "..."}
Work on one change at a time: apply it, build (go build ./...), run the existing tests of every
package you touched and of the root package (go test -p 4 -count=1 ./<pkg> ; the root package '.'
takes about 50 s) and make sure they pass, save 'git diff' to patch.diff, then 'git checkout -- .'
before starting the next change. Environment: export GOFLAGS=-mod=mod GOPROXY=off ; there is no
network. The machine is shared: run at most one 'go test' at a time.

Your final message: for each change, one paragraph (what was restructured and the argument that
behaviour is unchanged) and the commands you ran with their outcome.
TXT
