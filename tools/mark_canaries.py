#!/usr/bin/env python3
"""Mark up to three mutants per property (one per rule, revert-fix mutants first) as canaries run in the quick tier."""
import json,glob,os
root=os.path.dirname(os.path.dirname(os.path.abspath(__file__)))
for f in sorted(glob.glob(os.path.join(root,'mutants','C*.json'))):
    d=json.load(open(f)); seen=set(); n=0
    for m in d['mutants']:
        m.pop('canary',None)
    for m in d['mutants']:
        if m.get('kind','mutant')=='mutant' and m['name'].startswith('revert-fix') and n<3:
            m['canary']=True; n+=1; seen.add(m['expect_rule'])
    for m in d['mutants']:
        if m.get('kind','mutant')!='mutant' or m.get('canary'): continue
        r=m['expect_rule']
        if r not in seen and n<3 and not m.get('more'):
            seen.add(r); m['canary']=True; n+=1
    json.dump(d,open(f,'w'),indent=1)
    print(os.path.basename(f),n)
