#!/usr/bin/env python3
"""Run every registered check against each seeded change (scratch worktree of /repo HEAD + patch,
removed afterwards) and record which rules report it: seeded/<id>/caught.json.
usage: seed_matrix.py [-j N] [seed-dir ...]   (default: every seeded/*/ without caught.json for the current checker+repo)"""
import json, os, re, subprocess, sys, glob, hashlib
from concurrent.futures import ThreadPoolExecutor
V = "/verif"
def head(): return subprocess.run(["git","-C","/repo","rev-parse","--short","HEAD"],capture_output=True,text=True).stdout.strip()
def one(sd):
    sd = os.path.abspath(sd); name = os.path.basename(sd)
    wt = "/tmp/seedmx-%s-%d" % (name, os.getpid())
    subprocess.run(["git","-C","/repo","worktree","add","-q","--detach",wt,"HEAD"],check=True)
    res = {"seed": name, "repo_head": head()}
    try:
        p = subprocess.run(["git","-C",wt,"apply",os.path.join(sd,"patch.diff")],capture_output=True,text=True)
        if p.returncode != 0:
            res["error"] = "patch does not apply: " + p.stderr[-300:]
        else:
            env = dict(os.environ, GOFLAGS="-mod=mod", GOPROXY="off")
            for k in ("GOWORK","GOTOOLCHAIN","GOSUMDB"): env.pop(k, None)
            p = subprocess.run([V+"/bin/wvcheck","-all","-repo",wt,"-no-evidence"],capture_output=True,text=True,env=env,cwd=V)
            out = (p.stdout + p.stderr).replace(wt + "/", "")
            rules = {}
            for m in re.finditer(r"^\s*(violation|analysis-failure)\s+(C\d\d\.\S+)\s+(.*?) @(\S+): (.*)$", out, re.M):
                kind, rule, construct, pos, msg = m.groups()
                rules.setdefault(rule, []).append({"kind": kind, "construct": construct, "pos": pos, "message": msg[:400]})
            res["reported_by"] = rules
            res["properties_alarmed"] = sorted({r[:3] for r, v in rules.items() if any(x["kind"] == "violation" for x in v)})
            res["summary_lines"] = [l for l in out.splitlines() if re.match(r"^C\d\d: ", l) and (" 0 violations, 0 analysis" not in l)]
    finally:
        subprocess.run(["git","-C","/repo","worktree","remove","--force",wt])
    json.dump(res, open(os.path.join(sd,"caught.json"),"w"), indent=1)
    print(name, res.get("properties_alarmed"), sorted(res.get("reported_by",{})), res.get("error",""), flush=True)
    return res
def main():
    a = sys.argv[1:]; j = 2
    if a[:1] == ["-j"]: j = int(a[1]); a = a[2:]
    seeds = a or [d.rstrip("/") for d in sorted(glob.glob(V+"/seeded/*/"))]
    with ThreadPoolExecutor(j) as ex: list(ex.map(one, seeds))
if __name__ == "__main__": main()
