#!/bin/sh
# usage: seed_prompt.sh C01 a  -> prompt for an independent "break the property" sub-agent
P=$1; S=$2; D=/tmp/seed-$P-$S
ROUNDNOTE=""
if [ "$S" != "a" ]; then ROUNDNOTE=" Other engineers have already
tried the most direct edits to the mechanisms named above (dropping or inverting the obvious check,
swapping the obvious key or argument). Look further afield: code in OTHER files and functions that
cooperates with those mechanisms (callers, callees, constructors and initialisation, configuration
defaults, caches, cleanup and error paths, goroutines and locks), API entry points that reach the
mechanism by a second route, and mistakes that only matter in combination with behaviour elsewhere."; fi
cat <<TXT
You are testing the robustness of a Go code base. A private git worktree of the repository
berty/weshnet (Go module berty.tech/weshnet/v2) has been created for you at $D .
Work ONLY inside $D (and files you create under $D/_seed). Do not read or write anything under
/verif or /root, and do not touch /repo.

The code is supposed to satisfy this semantic property:

$(python3 - <<PY
import json
for l in open('/verif/properties.jsonl'):
    p=json.loads(l)
    if p['id']=='$P':
        print('  title:',p['title']); print('  statement:',p['statement']); print('  holds for:',p['quantifier']['text']); print('  anchored in:',', '.join(p['anchors']['files'])); 
        for m in p['anchors'].get('mechanism',[]): print('   -',m['name'],'(',m['where'],')')
PY
)

Your job: produce up to THREE different, independent, realistic changes to the NON-TEST source of
weshnet, each of which BREAKS this property while the code still compiles and the existing test
suite still passes. Think of the kind of mistake a competent developer could make in a refactor or a
"small improvement" and that code review might miss: a check that is dropped or weakened on one
path only, a comparison that is off by one or inverted in a rarely taken branch, two writes whose
order matters swapped, a lock narrowed or released early, a wrong key / field / argument that still
type-checks, an error that is swallowed, an early return, or two cooperating sites that each look
fine alone. Prefer changes that need something specific to manifest — a particular interleaving,
a crash or fault at a particular point, a multi-step sequence of operations, an unusual or malicious
input — over changes that ordinary use would expose at once. Make the three changes different in
kind and, if possible, in location.$ROUNDNOTE Do not edit or delete tests, build files or generated *.pb.go files.

For EACH change N (1..3) create the directory $D/_seed/N/ containing:
  - patch.diff   : the change, as produced by 'git diff' in $D (only that change applied)
  - a demonstration: a Go test file (demo_test.go, with a first-line comment naming the package
    directory of the repository it must be copied into) or a small program, which FAILS with the
    change applied and PASSES on the unchanged code; it must terminate quickly in both cases (bound
    every wait with a timeout)
  - meta.json    : {"property": "$P", "summary": "...", "what_it_needs_to_manifest": "...",
                    "files_changed": [...], "demo_cmd": "...", "tests_run": "..."}
Work on one change at a time: apply it, build (go build ./... ; go vet is not required), run the
demonstration (must fail), run the existing tests of every package you touched and of the root
package (go test -count=1 ./<pkg> ; the root package '.' takes about 45 s; the complete suite is
'go test -count=1 ./...' ~ 2 min) and make sure they still pass, save 'git diff' to patch.diff, then
'git checkout -- .' and verify the demonstration passes on the unchanged code, before starting the
next change. Environment: export GOFLAGS=-mod=mod GOPROXY=off ; there is no network.

Your final message: for each change, one paragraph (what it breaks and why tests do not notice) and
the exact commands you ran with their outcome. If you could not make a change that survives the
test suite, say so rather than delivering one that does not.
TXT
