#!/usr/bin/env python3
"""Print the markdown table of seeded changes (DESIGN.md 9.3) from seeded/*/{meta,caught,confirm}.json and tools/seed_notes.json."""
import json, glob, os, re
V="/verif"
notes=json.load(open(V+"/tools/seed_notes.json"))
def first(s,n=230):
    s=re.sub(r"\s+"," ",s or "").strip()
    return s if len(s)<=n else s[:n-1].rsplit(" ",1)[0]+"…"
rows=[]
for d in sorted(glob.glob(V+"/seeded/*/")):
    sid=os.path.basename(d.rstrip("/"))
    meta=json.load(open(d+"meta.json")) if os.path.exists(d+"meta.json") else {}
    caught=json.load(open(d+"caught.json")) if os.path.exists(d+"caught.json") else {}
    conf=json.load(open(d+"confirm.json")) if os.path.exists(d+"confirm.json") else {}
    rules=sorted(r for r,v in caught.get("reported_by",{}).items() if any(x["kind"]=="violation" for x in v))
    own=[r for r in rules if r.startswith(sid[:3]+".")]
    rows.append((sid, first(meta.get("summary","")), ", ".join(own) or "-", ", ".join(r for r in rules if r not in own) or "-", "yes" if conf.get("ok") else ("no: "+first(conf.get("why","see confirm.json"),60) if conf else "pending"), notes.get(sid,"")))
print("| seed | change (author's summary, shortened) | reported by the property's own check | also reported by | confirmed | note |")
print("|---|---|---|---|---|---|")
for r in rows: print("| "+" | ".join(x.replace("|","\\|") for x in r)+" |")
n=len(rows); c=sum(1 for r in rows if r[2]!="-"); a=sum(1 for r in rows if r[2]!="-" or r[3]!="-")
print(f"\n{n} seeded changes; {c} reported by the check of the property they were written against, {a} by some check.")
