#!/usr/bin/env python3
"""Rewrite the generated parts of DESIGN.md (between <!-- GEN:name --> and <!-- /GEN:name --> markers):
 seeds    - table of seeded changes and the rules that report them (tools/gen_seed_table.py)
 refactors- table of behaviour-preserving refactors and whether any check alarmed
 rules    - per property: rules with their floors and borrowed rules (wvcheck describe)"""
import json, glob, os, re, subprocess, sys
V="/verif"
def seeds():
    return subprocess.run([sys.executable, V+"/tools/gen_seed_table.py"],capture_output=True,text=True,check=True).stdout
def refactors():
    notes=json.load(open(V+"/tools/refactor_notes.json")) if os.path.exists(V+"/tools/refactor_notes.json") else {}
    rows=[]
    for d in sorted(glob.glob(V+"/refactors/*/")):
        rid=os.path.basename(d.rstrip("/"))
        meta=json.load(open(d+"meta.json")) if os.path.exists(d+"meta.json") else {}
        caught=json.load(open(d+"caught.json")) if os.path.exists(d+"caught.json") else {}
        conf=json.load(open(d+"confirm.json")) if os.path.exists(d+"confirm.json") else {}
        rb=sorted(caught.get("reported_by",{}))
        s=re.sub(r"\s+"," ",meta.get("summary","") or meta.get("kind","")).strip()
        if len(s)>200: s=s[:199].rsplit(" ",1)[0]+"…"
        rows.append((rid, meta.get("kind","")[:40], s, "silent" if not rb else "ALARM: "+", ".join(rb), "yes" if conf.get("ok") else ("no" if conf else "pending"), notes.get(rid,"")))
    out=["| refactor | kind | what was restructured | all 20 checks on the refactored tree | builds + tests pass | note |","|---|---|---|---|---|---|"]
    out+=["| "+" | ".join(x.replace("|","\\|") for x in r)+" |" for r in rows]
    n=len(rows); q=sum(1 for r in rows if r[3]=="silent")
    out.append(f"\n{n} behaviour-preserving refactors; {q} leave every check silent on the final checker.")
    return "\n".join(out)+"\n"
def rules():
    d=json.loads(subprocess.run([V+"/bin/wvcheck","describe"],capture_output=True,text=True,check=True).stdout)
    out=["| property | own rules (minimum number of obligations each must produce) | rules of other properties decided in the same run |","|---|---|---|"]
    for p in d:
        fl=", ".join(f"{k}≥{v}" for k,v in sorted(p["floors"].items(), key=lambda kv:(len(kv[0]),kv[0])))
        bo="; ".join(f"{b['From']}.{{{','.join(b['Rules'])}}}" for b in p.get("borrows",[]) ) or "-"
        out.append(f"| {p['id']} | {fl} | {bo} |")
    return "\n".join(out)+"\n"
gen={"seeds":seeds,"refactors":refactors,"rules":rules}
s=open(V+"/DESIGN.md").read()
for name,fn in gen.items():
    pat=re.compile(r"(<!-- GEN:%s -->\n)(.*?)(<!-- /GEN:%s -->)"%(name,name),re.S)
    if not pat.search(s): print("marker missing:",name); continue
    s=pat.sub(lambda m: m.group(1)+fn()+m.group(3), s)
open(V+"/DESIGN.md","w").write(s)
print("DESIGN.md tables regenerated")
