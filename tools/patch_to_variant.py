#!/usr/bin/env python3
"""Turn a unified diff (against /repo HEAD) into a self-test variant (text find/replace edits).
usage: patch_to_variant.py <patch.diff> <name> <kind: mutant|control> [expect_rule] [why]
Prints the JSON object. Each hunk becomes one edit: find = the hunk's old lines, replace = its new lines;
'occurrence' is set when the old text is not unique in the file. New files are not supported (returns error)."""
import json, re, subprocess, sys
def parse(patch_text):
    files=[]; cur=None; hunk=None
    for line in patch_text.splitlines(keepends=True):
        if line.startswith('diff --git'):
            cur={'file':None,'hunks':[],'new':False}; files.append(cur); hunk=None
        elif line.startswith('new file mode'):
            cur['new']=True
        elif line.startswith('--- '):
            pass
        elif line.startswith('+++ '):
            p=line[4:].strip()
            cur['file']=p[2:] if p.startswith('b/') else p
        elif line.startswith('@@'):
            m=re.match(r'@@ -(\d+)(?:,(\d+))? \+(\d+)(?:,(\d+))? @@',line)
            hunk={'start':int(m.group(1)),'old':[],'new':[]}; cur['hunks'].append(hunk)
        elif hunk is not None and line[:1] in (' ','-','+','\\'):
            if line[0]==' ': hunk['old'].append(line[1:]); hunk['new'].append(line[1:])
            elif line[0]=='-': hunk['old'].append(line[1:])
            elif line[0]=='+': hunk['new'].append(line[1:])
            elif line[0]=='\\':  # no newline at end of file
                pass
    return files
def variant(patch_path,name,kind,rule="",why=""):
    files=parse(open(patch_path).read())
    edits=[]
    for f in files:
        if f['new'] or not f['file']: raise SystemExit("new files are not supported: %s"%f['file'])
        src=subprocess.run(['git','-C','/repo','show','HEAD:'+f['file']],capture_output=True,text=True,check=True).stdout
        lines=src.splitlines(keepends=True)
        for h in f['hunks']:
            old=''.join(h['old']); new=''.join(h['new'])
            if not old: raise SystemExit("hunk without old text")
            off=sum(len(l) for l in lines[:h['start']-1])
            if src[off:off+len(old)]!=old:
                # tolerate line offset: search nearest
                idx=src.find(old)
                if idx<0: raise SystemExit("hunk does not match HEAD: %s @%d"%(f['file'],h['start']))
                off=idx
            n=src.count(old)
            e={'file':f['file'],'find':old,'replace':new}
            if n>1:
                e['occurrence']=src[:off].count(old)+1
            edits.append(e)
    # several hunks in one file: later finds must still match after earlier replaces -> fine when hunks do not overlap
    v={'name':name,'kind':kind,'file':edits[0]['file'],'find':edits[0]['find'],'replace':edits[0]['replace'],'occurrence':edits[0].get('occurrence',0),'expect_rule':rule if kind=='mutant' else '','why':why}
    if len(edits)>1: v['more']=edits[1:]
    return v
if __name__=='__main__':
    a=sys.argv[1:]
    print(json.dumps(variant(a[0],a[1],a[2],a[3] if len(a)>3 else "",a[4] if len(a)>4 else ""),indent=1))
