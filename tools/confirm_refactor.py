#!/usr/bin/env python3
"""Check that a behaviour-preserving refactor (refactors/<id>/patch.diff) applies to /repo HEAD, builds, and keeps the
tests of the touched packages and of the root package green (scratch worktree, removed afterwards). Writes confirm.json."""
import json, os, subprocess, sys, time
def sh(cmd, cwd, timeout=1500):
    env = dict(os.environ, GOFLAGS="-mod=mod", GOPROXY="off"); env.pop("GOWORK", None)
    t0=time.time()
    try:
        p=subprocess.run(cmd,shell=True,cwd=cwd,env=env,capture_output=True,text=True,timeout=timeout)
        return p.returncode,(p.stdout+p.stderr)[-1500:],time.time()-t0
    except subprocess.TimeoutExpired:
        return 124,"TIMEOUT",time.time()-t0
sd=os.path.abspath(sys.argv[1]); wt="/tmp/refconfirm-%d"%os.getpid()
subprocess.run(["git","-C","/repo","worktree","add","-q","--detach",wt,"HEAD"],check=True)
res={"refactor":os.path.basename(sd)}
try:
    rc,out,_=sh(f"git apply {sd}/patch.diff",wt); res["apply"]=rc
    if rc==0:
        ch=subprocess.run(["git","-C",wt,"diff","--name-only"],capture_output=True,text=True).stdout.split()
        res["files_changed"]=ch
        rc,out,_=sh("go build ./...",wt,900); res["build"]=rc
        pk=sorted({"./"+(os.path.dirname(f) or ".") for f in ch if f.endswith(".go")}|{"."})
        rc,out,dt=sh("go test -vet=off -count=1 -p 4 "+" ".join(pk),wt,1500)
        res["tests"]={"cmd":"go test -vet=off -count=1 "+" ".join(pk),"rc":rc,"s":round(dt,1),"tail":"" if rc==0 else out}
        res["ok"]=res["build"]==0 and rc==0
    else: res["ok"]=False
finally:
    subprocess.run(["git","-C","/repo","worktree","remove","--force",wt])
json.dump(res,open(sd+"/confirm.json","w"),indent=1); print(res["refactor"],res.get("ok"))
