#!/usr/bin/env python3
"""Regenerate the self-test variants that come from independent reviewers: every seeded change becomes a
mutant 'seed-<id>' in the mutants file of the property it was written against (expect_rule = a rule of that
property's check that reports it, per seeded/<id>/caught.json), every harmless refactor becomes a control
'refactor-<id>' in the file of the property it was written for. Existing 'seed-<own id>' / 'refactor-<own id>' entries are replaced; entries for another property's id are kept."""
import json, glob, os, sys
sys.path.insert(0, os.path.dirname(os.path.abspath(__file__)))
from patch_to_variant import variant
V="/verif"
by={}
def add(prop, v): by.setdefault(prop, []).append(v)
skipped=[]
for d in sorted(glob.glob(V+"/seeded/*/")):
    sid=os.path.basename(d.rstrip("/")); prop=sid[:3]
    cj=d+"caught.json"
    if not os.path.exists(cj): skipped.append((sid,"no caught.json")); continue
    rb=json.load(open(cj)).get("reported_by",{})
    own=sorted(r for r,v in rb.items() if r.startswith(prop+".") and any(x["kind"]=="violation" for x in v))
    if not own: skipped.append((sid,"not reported by "+prop)); continue
    meta=json.load(open(d+"meta.json")) if os.path.exists(d+"meta.json") else {}
    try:
        v=variant(d+"patch.diff","seed-"+sid,"mutant",own[0],"independent reviewer's change: "+(meta.get("summary","")[:300]))
    except SystemExit as e:
        skipped.append((sid,str(e))); continue
    add(prop,v)
for d in sorted(glob.glob(V+"/refactors/*/")):
    rid=os.path.basename(d.rstrip("/")); prop=rid[:3]
    meta=json.load(open(d+"meta.json")) if os.path.exists(d+"meta.json") else {}
    try:
        v=variant(d+"patch.diff","refactor-"+rid,"control","","independent reviewer's behaviour-preserving refactor: "+(meta.get("summary","")[:300]))
    except SystemExit as e:
        skipped.append((rid,str(e))); continue
    add(prop,v)
for prop,vs in sorted(by.items()):
    p=f"{V}/mutants/{prop}.json"; d=json.load(open(p))
    names={v["name"] for v in vs}
    # replace this property's own reviewer variants; keep cross-property ones a rule author added by hand
    d["mutants"]=[m for m in d["mutants"] if not (m["name"] in names or ((m["name"].startswith("seed-"+prop+"-") or m["name"].startswith("refactor-"+prop+"-")) and m["name"].count("-")==2))]+vs
    json.dump(d,open(p,"w"),indent=1)
    print(prop,len(vs),"variants from reviewers")
for s in skipped: print("skipped",*s)
