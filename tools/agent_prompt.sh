#!/bin/sh
# usage: agent_prompt.sh C06  -> prints the prompt for a rule-writing sub-agent
P=$1
WV=/tmp/wv-$P
cat <<TXT
You are implementing the static-analysis rules for ONE property ($P) of a verification
framework for the Go repository berty/weshnet (checked out at /repo, read-only for you: never
edit, build artefacts into, or run code from /repo). Your private working copy of the
framework is $WV (a copy of /verif). Work ONLY inside $WV. Deliverables, both inside $WV:

  1. $WV/checker/$(echo $P | tr 'C' 'c').go      — the rule file (package main), registering property $P
  2. $WV/mutants/$P.json                          — the self-test variants (mutants, controls, repairs)

Start by reading $WV/checker/RULES_GUIDE.md completely (it states the hard requirements and
the commands), then the framework files it lists and $WV/checker/c03.go as the worked
example, then the design for your property in $WV/DESIGN.md: sections 1-2 (stance and
machinery) quickly, then the subsection "### $P ..." in section 3 and the rows for $P in
section 5 (anticipated genuine defects), plus the appendices if your property refers to
them. Then read the /repo source files the property is anchored in.

The property, verbatim:
$(python3 - <<PY
import json
for l in open('/verif/properties.jsonl'):
    p=json.loads(l)
    if p['id']=='$P':
        print('  id:',p['id']); print('  title:',p['title']); print('  statement:',p['statement']); print('  quantifier:',p['quantifier']['text']); print('  anchors:',json.dumps(p['anchors']))
PY
)

What to build: implement the decided clauses (D1, D2, ...) of the design for $P as rules,
as many as you can make EXACT; prefer fewer exact rules over many brittle ones. This is a
static analysis: decide from the shape of the type-checked program (SSA, CFG dominance,
provenance, tables), never by running weshnet code and never by matching source text,
line numbers or unexported identifiers. If a clause cannot be made exact (it would fire
on a harmless refactor, or needs modelling you cannot do soundly), drop it and say so in
your final report. The design is a plan, not a contract: where reading the code shows the
design is wrong, follow the code and the property statement.

Quality bar (this is what the work is judged on):
  * on the unchanged /repo every obligation is ok, EXCEPT genuine defects of weshnet (the
    design's section 5 lists the anticipated ones for $P, if any). For each report on the
    unchanged tree decide: real defect (then keep the rule, and add a "repair" variant to
    the mutants file showing the minimal correct fix makes the report disappear) or false
    alarm (then fix the rule).
  * realistic property-breaking edits that still compile and pass the project's tests are
    reported, with a message naming the construct: write mutants for them — think like an
    adversarial reviewer: one deleted check, a weakened comparison, a swapped argument,
    a wrong key/nonce/field, a dropped error, an early return, two cooperating sites.
    Aim for 8-15 mutants and 3+ controls. Every mutant must type-check (the self-test lists
    "skipped: does not type-check" otherwise) and be killed by the rule named in expect_rule.
  * behaviour-preserving rewrites (controls) raise nothing.
  * floors set; evidence Explanation says what is decided and what is not.

Build/run commands are in the guide (export WV=$WV first). The analyser loads /repo in
about 3 s; the self-test runs all variants in about 10 s. Iterate until
'wvcheck -p $P' is clean (or reports only genuine defects) and 'wvcheck selftest -p $P'
kills every mutant with all controls silent.

Genuine defects (only if your rules report something real on the unchanged tree): for each one,
besides the "repair" variant in the mutants file, prepare the evidence the maintainer needs to
repair weshnet: create a scratch git worktree of /repo for yourself
(git -C /repo worktree add /tmp/fix-$P HEAD ; remove it at the end with
git -C /repo worktree remove --force /tmp/fix-$P), and in it write (a) a small Go test that
demonstrates the defect against the real code — it must FAIL on the unchanged sources and
PASS with your fix, and must terminate quickly in both cases (bound every wait with a
timeout; a hung test costs 10 minutes) — and (b) the minimal fix a maintainer would accept
(corrects the behaviour; does not remove it, special-case the failing input, or touch
anything the defect does not require). Run the package's existing tests with the fix
(go test -count=1 ./<pkg>; the root package takes ~45 s). Save into $WV/fixes/$P/<short-name>/ :
demo_test.go (with a header comment saying which directory of /repo it belongs in), fix.diff
(git diff of the fix only), and notes.txt (what fails, how you ran it, outputs before/after).
If a defect cannot be demonstrated by running code in this sandbox, or the fix is not small
and safe, say so instead — it will then be listed as a known finding. /repo HEAD already
contains three earlier "fix:" commits (handshake low-order check, GroupJoin type test,
IsExpired direction); DESIGN.md section 5 predates them.

Final report (your last message; it is read by the framework's maintainer, not the user):
  - rules implemented (id, one line each, instance counts on today's tree) and clauses dropped, with reasons
  - every report on the unchanged tree, triaged (genuine defect: the failing input/sequence; the exact minimal fix)
  - self-test result line
  - any change you need in the shared framework files (exact diff), any bug you found in them
Do not write any other files (except the scratch worktree /tmp/fix-$P and $WV/fixes/$P); do not touch /verif or /repo's working tree; do not commit anything.
TXT
