#!/usr/bin/env python3
"""Confirm a seeded change in a scratch worktree of /repo HEAD.

usage: confirm_seed.py <seed-dir> [--pkg <dir>] [--full]
  <seed-dir> contains patch.diff, a demo (*_test.go) and meta.json.
Checks, in a scratch worktree (removed afterwards):
  1. the demo PASSES on the unchanged tree,
  2. the patch applies, the tree builds,
  3. the demo FAILS with the patch,
  4. the existing tests still pass with the patch (touched packages + root; --full: ./...).
Prints a JSON summary (also written to <seed-dir>/confirm.json).
"""
import json, os, re, subprocess, sys, glob, shutil, time

def sh(cmd, cwd, timeout=1500):
    env = dict(os.environ, GOFLAGS="-mod=mod", GOPROXY="off")
    env.pop("GOWORK", None)
    t0 = time.time()
    try:
        p = subprocess.run(cmd, shell=True, cwd=cwd, env=env, capture_output=True, text=True, timeout=timeout)
        return p.returncode, (p.stdout + p.stderr)[-3000:], time.time() - t0
    except subprocess.TimeoutExpired:
        return 124, "TIMEOUT", time.time() - t0

def main():
    sd = os.path.abspath(sys.argv[1])
    full = "--full" in sys.argv
    pkg = None
    if "--pkg" in sys.argv:
        pkg = sys.argv[sys.argv.index("--pkg") + 1]
    demos = [f for f in glob.glob(os.path.join(sd, "*_test.go"))]
    if not demos:
        print(json.dumps({"seed": sd, "ok": False, "why": "no demo *_test.go"})); return 1
    demo = demos[0]
    src = open(demo).read()
    if pkg is None:
        head = "\n".join(src.splitlines()[:12])
        m = re.search(r"(?:package directory:|copy into:|belongs in|copied into)\s+[`'\"]?(?:/repo/|<repo>/)?([^\s(,;]+)", head)
        cand = m.group(1).rstrip(".,;:") if m else "."
        if cand in ("", "the", "root", "repository"):
            cand = "."
        cand = cand.lstrip("./") or "."
        pkg = cand
    if not os.path.isdir(os.path.join("/repo", pkg)):
        pkg = "."
    tests = re.findall(r"^func (Test[A-Za-z0-9_]+)\(", src, re.M)
    run = "^(" + "|".join(tests) + ")$"
    wt = "/tmp/seedconfirm-%d" % os.getpid()
    subprocess.run(["git", "-C", "/repo", "worktree", "add", "-q", wt, "HEAD"], check=True)
    res = {"seed": sd, "pkg": pkg, "tests": tests, "repo_head": subprocess.run(["git", "-C", "/repo", "rev-parse", "--short", "HEAD"], capture_output=True, text=True).stdout.strip()}
    try:
        dst = os.path.join(wt, pkg, "zz_seed_demo_test.go")
        shutil.copy(demo, dst)
        rc, out, dt = sh(f"go test -count=1 -run '{run}' ./{pkg}", wt, 900)
        res["demo_unchanged"] = {"rc": rc, "s": round(dt, 1), "tail": out[-600:]}
        os.remove(dst)
        rc, out, _ = sh(f"git apply {os.path.join(sd, 'patch.diff')}", wt)
        if rc != 0:
            rc, out, _ = sh(f"git apply -3 {os.path.join(sd, 'patch.diff')}", wt)
        res["apply"] = rc
        if rc != 0:
            res["ok"] = False; res["why"] = "patch does not apply to /repo HEAD: " + out[-300:]
            return finish(res, sd)
        changed = subprocess.run(["git", "-C", wt, "diff", "--name-only"], capture_output=True, text=True).stdout.split()
        res["files_changed"] = changed
        rc, out, _ = sh("go build ./...", wt, 900)
        res["build"] = rc
        shutil.copy(demo, dst)
        rc, out, dt = sh(f"go test -count=1 -run '{run}' ./{pkg}", wt, 900)
        res["demo_changed"] = {"rc": rc, "s": round(dt, 1), "tail": out[-900:]}
        os.remove(dst)
        pk = sorted({"./" + (os.path.dirname(f) or ".") for f in changed if f.endswith(".go")} | {"."})
        target = "./..." if full else " ".join(pk)
        rc, out, dt = sh(f"go test -vet=off -count=1 -timeout 25m {target}", wt, 1700)
        res["suite"] = {"cmd": f"go test -vet=off -count=1 {target}", "rc": rc, "s": round(dt, 1), "tail": "" if rc == 0 else out[-1200:]}
        if rc != 0:
            # timing-sensitive baseline tests flake when the machine is loaded: re-run the failing
            # packages alone, once; the suite counts as passed only if every one of them passes
            failing = sorted(set(re.findall(r"^FAIL\s+(berty\.tech/weshnet/v2\S*)", out, re.M)))
            if failing and "TIMEOUT" not in out:
                pk2 = " ".join("./" + f[len("berty.tech/weshnet/v2"):].lstrip("/") for f in failing).replace("./ ", ". ")
                pk2 = " ".join(x if x != "./" else "." for x in pk2.split())
                rc2, out2, dt2 = sh(f"go test -vet=off -count=1 -timeout 25m {pk2}", wt, 1700)
                res["suite"]["rerun"] = {"cmd": f"go test -vet=off -count=1 {pk2}", "rc": rc2, "s": round(dt2, 1), "tail": "" if rc2 == 0 else out2[-1200:]}
                if rc2 == 0:
                    res["suite"]["rc"] = 0
                    res["suite"]["note"] = "first run failed in " + ", ".join(failing) + " (timing-sensitive under load); those packages passed when re-run alone"
        res["ok"] = res["demo_unchanged"]["rc"] == 0 and res["build"] == 0 and res["demo_changed"]["rc"] != 0 and res["suite"]["rc"] == 0
    finally:
        subprocess.run(["git", "-C", "/repo", "worktree", "remove", "--force", wt])
    return finish(res, sd)

def finish(res, sd):
    json.dump(res, open(os.path.join(sd, "confirm.json"), "w"), indent=1)
    brief = {k: res.get(k) for k in ("seed", "pkg", "ok", "why", "apply", "build")}
    for k in ("demo_unchanged", "demo_changed", "suite"):
        if k in res:
            brief[k] = res[k]["rc"]
    print(json.dumps(brief))
    return 0 if res.get("ok") else 1

if __name__ == "__main__":
    sys.exit(main())
