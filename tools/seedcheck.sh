#!/bin/sh
# usage: seedcheck.sh <patch.diff> <property-id>[,<id>...]   — run checks against /repo HEAD + patch in a scratch worktree
patch="$1"; props="$2"
wt=/tmp/seedchk-$$
git -C /repo worktree add -q "$wt" HEAD || exit 2
if ! git -C "$wt" apply "$patch"; then echo "PATCH DOES NOT APPLY"; git -C /repo worktree remove --force "$wt"; exit 3; fi
unset GOWORK GOTOOLCHAIN GOSUMDB; export GOFLAGS=-mod=mod GOPROXY=off
/verif/bin/wvcheck -p "$props" -repo "$wt" -no-evidence 2>&1 | sed "s|$wt/||g" | cut -c1-600
rc=$?
git -C /repo worktree remove --force "$wt"
exit $rc
