#!/bin/sh
# validate MANIFEST.json and every evidence file against the schemas
python3-vt - <<'PY'
import json,jsonschema,glob,sys
ok=True
try:
    jsonschema.validate(json.load(open('/verif/MANIFEST.json')),json.load(open('/root/.vp/MANIFEST.schema.json'))); print('manifest valid')
except Exception as e:
    ok=False; print('MANIFEST INVALID',str(e)[:300])
s=json.load(open('/root/.vp/EVIDENCE.schema.json'))
for f in sorted(glob.glob('/verif/evidence/*.json')):
    try:
        jsonschema.validate(json.load(open(f)),s)
    except Exception as e:
        ok=False; print('EVIDENCE INVALID',f,str(e)[:300])
print('evidence files checked:',len(glob.glob('/verif/evidence/*.json')))
sys.exit(0 if ok else 1)
PY
