#!/usr/bin/env python3
"""Generate /verif/MANIFEST.json from tools/claims.json (source of truth for claims)."""
import json, os
here = os.path.dirname(os.path.abspath(__file__))
root = os.path.dirname(here)
claims = json.load(open(os.path.join(here, "claims.json")))
props = [json.loads(l) for l in open(os.path.join(root, "properties.jsonl"))]
baseline = json.load(open("/root/.vp/BASELINE.json"))["cmd"] if os.path.exists("/root/.vp/BASELINE.json") else ""
import subprocess
desc = {}
try:
    out = subprocess.run([os.path.join(root, "bin", "wvcheck"), "describe"], capture_output=True, text=True, check=True).stdout
    desc = {d["id"]: d for d in json.loads(out)}
except Exception as e:  # the binary is built by setup.sh; without it the hand-written claim text is used alone
    print("describe unavailable:", e)
checks, na = [], []
for p in props:
    pid = p["id"]
    c = claims.get(pid)
    if c and c.get("claimed"):
        checks.append({
            "property_id": pid,
            "quick_cmd": f"./run.sh {pid} quick",
            "thorough_cmd": f"./run.sh {pid} thorough",
            "evidence_file": f"/verif/evidence/{pid}.json",
            "replay_cmd_template": "./bin/wvcheck explain {path}",
            "engine": "wvcheck",
            "level_claimed": {"category": "other", "text": c["text"] + (" || What the rules decide, as registered in the checker at this commit: " + desc[pid]["explanation"] if pid in desc else ""), "design_ref": f"DESIGN.md section 3, {pid}"},
            "level_note": c["note"],
            "technique": c["technique"],
        })
    else:
        na.append({"property_id": pid, "reason": (c or {}).get("reason", "no sound static rule built for this property at this commit; see DESIGN.md section 3")})
m = {
    "version": 1,
    "setup_cmd": "./setup.sh",
    "hooks": {
        "guard": "verif",
        "enable": "none needed: the analyser reads /repo's sources as they are; no instrumentation exists, so no build tag is ever passed",
        "baseline_off_cmd": baseline,
        "source_commits": [],
        "add_only": True,
    },
    "engines": [{
        "name": "wvcheck",
        "path": "/verif/checker",
        "serves_properties": [c["property_id"] for c in checks],
        "kind_free_text": "repository-specific static analyser over go/packages + go/ssa (x/tools v0.29.0): dominance / must-pass-through, reject-on-failure, provenance, lockset, effect order, table extraction, finite-domain abstract evaluation; overlay mutants as self-test in the thorough tier",
    }],
    "checks": checks,
    "notes": "All checks are static analyses of /repo's working tree; nothing from /repo is executed. quick = rules on the current tree; thorough = the same rules plus the checker self-test (overlay mutants that must be reported, behaviour-preserving controls that must stay silent). KNOWN_FINDINGS.json lists genuine defects found (open or fixed).",
    "not_applicable": na,
}
json.dump(m, open(os.path.join(root, "MANIFEST.json"), "w"), indent=1)
print(f"{len(checks)} claimed, {len(na)} not applicable")
