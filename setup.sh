#!/bin/sh
# Build the analyser from files on disk only (offline).
cd /verif/checker || exit 2
unset GOWORK GOTOOLCHAIN GOSUMDB
export GOFLAGS=-mod=mod GOPROXY=off
mkdir -p /verif/bin /verif/evidence /verif/out
go build -o /verif/bin/wvcheck . || exit 1
# warm the type-check cache of /repo's dependencies (go list -export) so the first check is not slow
(cd /repo && go build ./... >/dev/null 2>&1 || true)
exit 0
